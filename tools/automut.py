#!/usr/bin/env python3
"""Automatic single-edit mutation study (validation of the monitors, DESIGN.md §9.2).

    automut.py <N> <seed> <Cxx> [<Cyy> ...]

Works on a private worktree of /repo (/tmp/automut/repo) with its own build directory, so it never
touches /repo, /verif/build or the evidence files. For N random single-token edits in the files a
property is anchored in: apply, run the quick tier (plain build only) of that property; if the check
stays silent, run the repository's own test-suite; a mutant that survives both is saved for inspection."""
import sys, os, re, json, random, subprocess, shutil, time
N, seed = int(sys.argv[1]), int(sys.argv[2]); props = sys.argv[3:]
ROOT = "/tmp/automut"; REPO = ROOT + "/repo"; OUT = ROOT + "/out"
os.makedirs(OUT + "/survivors", exist_ok=True)
if not os.path.exists(REPO):
    subprocess.run(["git", "-C", "/repo", "worktree", "add", "--detach", REPO, "HEAD"], check=True, stdout=subprocess.DEVNULL)
subprocess.run(["git", "-C", REPO, "checkout", "-q", "--", "."])
P = {json.loads(l)["id"]: json.loads(l) for l in open("/verif/properties.jsonl")}
env = dict(os.environ, VERIF_REPO=REPO, VERIF_BUILD=ROOT + "/build", VERIF_SCRATCH="1", VERIF_ONLY_VARIANT="plain")
OPS = [(r" == ", " != "), (r" != ", " == "), (r" <= ", " < "), (r" >= ", " > "), (r" < ", " <= "), (r" > ", " >= "), (r" && ", " || "), (r" \|\| ", " && "),
       (r"\btrue\b", "false"), (r"\bfalse\b", "true"), (r"\bcontinue;", "break;"), (r"\bbreak;", "continue;"), (r"\+\+", "--"), (r" \+ 1\b", " + 0"), (r" - 1\b", " - 0"),
       (r"\.begin\(\)", ".end()"), (r"!(\w)", r"\1"), (r"\bif \((\w)", r"if (!\1")]
rng = random.Random(seed)
log = open(OUT + "/log.txt", "a")
def say(*a):
    print(*a, flush=True); print(*a, file=log, flush=True)
def baseline_tests():
    r = subprocess.run("cmake --build %s/_build -j12 2>&1 | grep -E 'error' | head -3; cd %s/_build && ctest -j5 --timeout 600 2>&1 | grep -E 'tests passed|Failed' | tr '\\n' ' '; cd unit_tests && ./bdd_bu_tree_aut_test 2>&1 | grep -c 'fatal error'" % (REPO, REPO), shell=True, stdout=subprocess.PIPE, text=True).stdout
    return re.sub(r'\s+\d+\.\d+ sec', '', r.strip())
if not os.path.exists(REPO + "/_build"):
    subprocess.run("cmake -G Ninja -B %s/_build -S %s -DCMAKE_BUILD_TYPE=RelWithDebInfo > /dev/null" % (REPO, REPO), shell=True)
BASE = baseline_tests(); say("baseline tests:", BASE)
killed = survived = test_killed = invalid = killed_other = 0
for n in range(N):
    prop = rng.choice(props)
    files = [f for f in P[prop]["anchors"]["files"] if (f.endswith(".cc") or f.endswith(".hh")) and os.path.isfile(REPO + "/" + f) and not f.startswith("cli/")]
    f = rng.choice(files); path = REPO + "/" + f; src = open(path).read().split("\n")
    cands = []
    for i, ln in enumerate(src):
        t = ln.strip()
        if not t or t.startswith(("//", "*", "/*", "#")) or "assert" in ln or "VERIF" in ln or "throw" in ln or "template" in ln or "typedef" in ln or "using " in ln or "operator" in ln or "GCC_DIAG" in ln or "virtual" in ln or t.startswith(("class ", "struct ", "friend ", "static const", "enum ")) or "std::cerr" in ln or "std::cout" in ln: continue
        for k, (pat, rep) in enumerate(OPS):
            for m in re.finditer(pat, ln):
                cands.append((i, k, m.start()))
        if t.endswith(";") and re.search(r"\.(insert|erase|push_back|clear|emplace_back|add|refine)\(", t) and "return" not in t and "=" not in t.split("(")[0]:
            cands.append((i, -1, 0))
    if not cands: continue
    i, k, pos = rng.choice(cands); old = src[i]
    if k == -1: new = old[:len(old) - len(old.lstrip())] + ";  // (statement removed)"
    else:
        pat, rep = OPS[k]; m = None
        for mm in re.finditer(pat, old):
            if mm.start() == pos: m = mm
        new = old[:m.start()] + re.sub(pat, rep, m.group(0)) + old[m.end():]
    src[i] = new; open(path, "w").write("\n".join(src))
    tag = "%s %s:%d  [%s]  ->  [%s]" % (prop, f, i + 1, old.strip()[:90], new.strip()[:90])
    t0 = time.time()
    r = subprocess.run(["/verif/check", prop], env=env, stdout=subprocess.PIPE, stderr=subprocess.STDOUT, text=True)
    if r.returncode == 1:
        killed += 1; keys = re.findall(r"key=(\S+)", r.stdout)[:2]; say("KILLED   %s   %s (%.0fs)" % (tag, keys, time.time() - t0))
    elif r.returncode == 2:
        invalid += 1; say("INVALID  %s   (does not build / harness failure)" % tag)
    else:
        tr = baseline_tests()
        if tr != BASE:
            test_killed += 1; say("TESTS    %s   (silent check, but the repository's own tests change: %s)" % (tag, tr[:80]))
        else:
            # silent for the drawn property and for the tests: is it reported by another check anchored in the same file?
            other = None
            for q in sorted(P):
                if q == prop or q in ("C19", "C20") or f not in P[q]["anchors"]["files"]: continue
                r2 = subprocess.run(["/verif/check", q], env=env, stdout=subprocess.PIPE, stderr=subprocess.STDOUT, text=True)
                if r2.returncode == 1: other = (q, re.findall(r"key=(\S+)", r2.stdout)[:2]); break
            if other:
                killed_other += 1; say("KILLED-BY-OTHER %s   %s %s" % (tag, other[0], other[1]))
            else:
                survived += 1; d = subprocess.run(["git", "-C", REPO, "diff"], stdout=subprocess.PIPE, text=True).stdout
                open(OUT + "/survivors/%s-%d-%d.diff" % (prop, seed, n), "w").write(d); say("SURVIVED %s" % tag)
    subprocess.run(["git", "-C", REPO, "checkout", "-q", "--", "."])
say("summary seed=%d props=%s: killed=%d killed-by-another-check=%d killed-by-tests-only=%d survived=%d invalid=%d" % (seed, props, killed, killed_other, test_killed, survived, invalid))
