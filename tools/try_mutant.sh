#!/bin/bash
# usage: try_mutant.sh <patch.diff> <Cxx> [<Cyy> ...] — applies a seeded change to /repo, runs the
# quick checks, and ALWAYS restores /repo afterwards. Prints one line per check.
P=$1; shift
cd /repo || exit 2
[ -z "$(git status --porcelain --untracked-files=no)" ] || { echo "/repo has local modifications; refusing"; exit 2; }
git apply "$P" || { echo "patch does not apply to /repo"; exit 2; }
before=$(ls /verif/work 2>/dev/null)
trap 'git -C /repo checkout -q -- .; for d in $(ls /verif/work 2>/dev/null); do echo "$before" | grep -qx "$d" || rm -rf "/verif/work/$d"; done' EXIT   # /repo restored; scratch of the (non-clean) runs removed
cd /verif
for c in "$@"; do
  cp evidence/$c.json /tmp/evidence_$c.json.bak 2>/dev/null     # evidence files must describe the unchanged tree
  out=$(./check $c ${TIER:+--tier $TIER} 2>&1); rc=$?
  cp /tmp/evidence_$c.json.bak evidence/$c.json 2>/dev/null; rm -f /tmp/evidence_$c.json.bak
  echo "[$c rc=$rc] $(echo "$out" | grep -E "^VIOLATION|HARNESS" | head -4 | tr '\n' ' ') $(echo "$out" | grep -E "quick seed|thorough seed" | tail -1)"
  echo "$out" | grep -E "^  key=" | head -6
done
