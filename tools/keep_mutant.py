#!/usr/bin/env python3
"""keep_mutant.py <id> <worktree> <property> <detected-by> <needs...>
Copies a confirmed seeded change into /verif/seeded/<id>/ (patch.diff, demo.cc, README.md, meta.json)."""
import sys, os, shutil, json
mid, wt, prop, detected = sys.argv[1:5]
needs = " ".join(sys.argv[5:])
d = "/verif/seeded/" + mid
os.makedirs(d, exist_ok=True)
for f in ("patch.diff", "demo.cc", "README.md"):
    shutil.copy(os.path.join(wt, "MUTANT", f), d)
meta = {
    "id": mid, "breaks_property": prop, "origin": "independent sub-agent given only the property text and a scratch worktree",
    "needs_to_manifest": needs,
    "confirmed": "tools/confirm_mutant.sh <worktree>: with the change the tree builds, ctest gives the baseline result (same passes, same two NotImplemented cases), demo.cc exits non-zero; without the change demo.cc prints OK and exits 0",
    "checks_run": "tools/try_mutant.sh seeded/%s/patch.diff %s (patch applied to /repo, quick tier, /repo restored afterwards)" % (mid, detected.split(":")[0].replace(",", " ")),
    "detected_by": detected,
}
json.dump(meta, open(os.path.join(d, "meta.json"), "w"), indent=1)
print("kept", d)
