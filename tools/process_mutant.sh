#!/bin/bash
# usage: process_mutant.sh <worktree-id under /tmp/mut> <Cxx> [<Cyy> ...] — confirm_mutant.sh, then try_mutant.sh with the listed checks
W=/tmp/mut/$1; shift
/verif/tools/confirm_mutant.sh $W 2>&1 | grep -v "^WARNING" | cut -c1-420
echo "------ checks"
/verif/tools/try_mutant.sh $W/MUTANT/patch.diff "$@" 2>&1 | grep -v "^WARNING" | cut -c1-600
