#!/bin/bash
# usage: soak.sh <tier> <seed> [<seed> ...] — every check at the given tier for several seeds; one line per run.
# CHECKS="13 14" restricts the checks. Meant for `vp run --with-repo -- tools/soak.sh quick 2 3 4` (builds from the /repo snapshot in $VP_RUN_REPO).
tier=$1; shift
[ -n "${VP_RUN_REPO:-}" ] && export VERIF_REPO=$VP_RUN_REPO
for s in "$@"; do
  for i in ${CHECKS:-01 02 03 04 05 06 07 08 09 10 11 12 13 14 15 16 17 18 19 20}; do
    out=$(VERIF_SEED=$s ./check C$i --tier $tier 2>&1); rc=$?
    echo "seed=$s C$i rc=$rc $(echo "$out" | grep -E "^VIOLATION|^KNOWN|HARNESS" | head -3 | tr '\n' ' ') $(echo "$out" | grep -E "(quick|thorough) seed" | tail -1)"
  done
done
