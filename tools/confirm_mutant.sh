#!/bin/bash
# usage: confirm_mutant.sh <worktree> — re-checks a seeded change delivered in <worktree>/MUTANT:
#   with the change: builds, ctest = baseline, demo fails; without: demo passes. Prints a summary.
set -u
W=$1; cd "$W" || exit 2
M=$W/MUTANT
[ -f $M/patch.diff ] && [ -f $M/demo.cc ] || { echo "missing deliverables"; exit 2; }
run_ctest() { ctest --test-dir _build -j5 --timeout 900 2>&1 | grep -E "tests passed|Failed|Not Run|Timeout" | tr '\n' ' '; (cd _build/unit_tests && ./bdd_bu_tree_aut_test 2>&1 | grep -E "fatal error: in" | sed 's/.*in "\([^"]*\)".*/\1/' | tr '\n' ' '); echo; }
# state 1: ensure the change is applied exactly as in patch.diff
git checkout -q -- . 2>/dev/null; git apply $M/patch.diff || { echo "PATCH DOES NOT APPLY"; exit 2; }
echo "patch touches: $(git diff --stat | tail -1)"
cmake --build _build -j8 2>&1 | grep -E "error|FAILED" | head -3
echo -n "WITH change: ctest: "; run_ctest
g++ -std=c++11 -O1 -DNDEBUG -Iinclude $M/demo.cc _build/src/libvata.a -o /tmp/demo_$$ 2>&1 | grep -E "error" | head -3
timeout 300 /tmp/demo_$$ > /tmp/demo_$$.out 2>&1; echo "WITH change: demo exit=$? : $(head -c 300 /tmp/demo_$$.out | tr '\n' ' ')"
git checkout -q -- .
cmake --build _build -j8 2>&1 | grep -E "error|FAILED" | head -3
echo -n "WITHOUT change: ctest: "; run_ctest
g++ -std=c++11 -O1 -DNDEBUG -Iinclude $M/demo.cc _build/src/libvata.a -o /tmp/demo_$$ 2>&1 | grep -E "error" | head -3
timeout 300 /tmp/demo_$$ > /tmp/demo_$$.out 2>&1; echo "WITHOUT change: demo exit=$? : $(head -c 200 /tmp/demo_$$.out | tr '\n' ' ')"
rm -f /tmp/demo_$$ /tmp/demo_$$.out
