#!/usr/bin/env python3
"""mk_agent_task.py <id> <Cxx> — creates a scratch worktree /tmp/mut/<id> of /repo and writes TASK.md into it:
the text of property Cxx (nothing else from /verif except one line per earlier seeded change of that property, so that
ideas are not repeated) and the deliverables a sub-agent is asked for.  The Agent prompt is then just
'read /tmp/mut/<id>/TASK.md and carry it out'."""
import sys, json, os, subprocess, glob
mid, prop = sys.argv[1:3]
wt = "/tmp/mut/" + mid
if not os.path.isdir(wt):
    subprocess.check_call(["git", "-C", "/repo", "worktree", "add", "--detach", wt, "HEAD"], stdout=subprocess.DEVNULL)
P = None
for l in open("/verif/properties.jsonl"):
    p = json.loads(l)
    if p["id"] == prop: P = p
earlier = []
anch = P.get("anchors", {}); anch = anch.get("files", []) if isinstance(anch, dict) else []
for m in sorted(glob.glob("/verif/seeded/m*/meta.json")):
    mm = json.load(open(m)); touched = [l.split(" b/")[-1].strip() for l in open(os.path.dirname(m) + "/patch.diff") if l.startswith("diff --git")]
    related = {"C05": ["C04", "C16", "C19"], "C01": ["C07", "C19", "C20"], "C07": ["C01", "C20"], "C19": ["C01", "C04", "C05", "C16"], "C04": ["C05", "C16", "C19"],
               "C16": ["C04", "C05", "C19"], "C17": ["C18"], "C18": ["C17", "C20"], "C11": ["C12"], "C12": ["C11"], "C09": ["C10"], "C10": ["C09"], "C08": ["C07"]}.get(prop, [])
    if mm["breaks_property"] == prop or mm["breaks_property"] in related or any(t in anch for t in touched):
        earlier.append("- (%s) %s" % (", ".join(touched), mm["needs_to_manifest"]))
ptxt = json.dumps({k: P[k] for k in P if k != "id"}, indent=1)
open(wt + "/TASK.md", "w").write(f"""# Task

You are working in `{wt}`, a scratch git worktree of the C++ library ondrik/libvata (tree and word automata:
explicit and MTBDD-based encodings, inclusion checking, simulation, reduction).  Work ONLY inside this directory.
Never read or touch `/repo` or `/verif`.  Do not commit, do not use `git stash`.

Build:  `cmake -G Ninja -B _build -S . -DCMAKE_BUILD_TYPE=RelWithDebInfo >/dev/null && cmake --build _build -j6`
Tests:  `ctest --test-dir _build -j5 --timeout 900`   (baseline: 4 of 5 test executables pass; `bdd_bu_tree_aut_test` fails at
baseline with exactly two NotImplementedException cases, `aut_down_inclusion_rec_nosim` and `aut_down_inclusion_opt_rec_nosim`;
that is the result your change must reproduce — check with `cd _build/unit_tests && ./bdd_bu_tree_aut_test`).
Shipped builds define NDEBUG: `assert`s are compiled out.  Code inside `#ifdef LIBVATA_VERIF` is off; leave it alone.

## The property

The following semantic property of the library is supposed to hold:

```json
{ptxt}
```

## What is wanted

A *realistic* change to the library source (`src/`, `include/`, possibly `cli/`) — the kind of slip or well-meant
optimisation/refactoring a maintainer could commit — that BREAKS this property while the tree still compiles and the
existing test suite still gives its baseline result.  The change must need something specific to manifest: a particular
multi-step sequence of operations, an unusual input shape, a particular history of the process (sharing, caches, address
reuse), or two cooperating sites that each look fine alone.  It must NOT be exposed at once by ordinary use (if most
random inputs show it, it is too blunt).  Prefer a part of the anchored code, or a clause of the property, that the
earlier attempts listed below did not use; do not repeat them:

{chr(10).join(earlier) if earlier else "- (none yet)"}

## Deliverables (in `{wt}/MUTANT/`)

- `patch.diff` — `git diff` of the source change only (must apply with `git apply` to a clean checkout of this worktree's HEAD);
- `demo.cc` — a standalone C++11 program using only the public API (`#include <vata/...>`; it is compiled with
  `g++ -std=c++11 -O1 -DNDEBUG -Iinclude MUTANT/demo.cc _build/src/libvata.a`) that prints `OK` and exits 0 on the unmodified
  tree and exits non-zero, saying what is wrong, with the change.  It must be deterministic or loop until it finds a witness (bounded, < 2 min);
- `README.md` — what the change is, which clause of the property it breaks, exactly what is needed for it to manifest, and what
  you measured (how often random inputs hit it, if you tried).

Verify all of it yourself: build + ctest + demo with the change, and build + ctest + demo without it.  Leave the worktree
with the change applied and uncommitted.  Final answer: a short summary (the change, what it needs to manifest, the results).
""")
print(wt)
