// C19: metamorphic monitor on real (corpus) automata — no brute-force reference.
// For a subject A (and partner B from the same corpus directory) a *twin* is built through
// the public mutators with a random state bijection, shuffled rule insertion order and a
// fresh alphabet registered in another order. Relations between executions are checked:
//   * every inclusion verdict (8 selections, both directions) equals the twin's, and all
//     selections agree;   * emptiness equal;   * downward and upward simulation map to their images;
//   * |states|, |rules| of Reduce / RemoveUselessStates / RemoveUnreachableStates equal;
//   * A ⊆ A, A ⊆ A∪B, A∩B ⊆ A, A∩B ⊆ B, transitivity on A ⊆ A∪B ⊆ A∪B∪C and on observed-true
//     pairs, A ≡ Reduce(A) ≡ trim(A) ≡ reindex(A) ≡ reload(dump(A)).
// Every library call runs in a forked child under a wall-clock limit; a timeout makes that
// relation inconclusive, never violated.
#include "vata_util.hh"
#include "gen.hh"
#include <fstream>
#include <dirent.h>
#include <poll.h>
#include <sys/wait.h>
#include <sys/resource.h>

using namespace vu;
static vh::Run* R;
static double LIMIT = 5.0;
static bool underAsan = false;

struct Subject
{
	std::string file, dir; Util::AutDescription d; std::vector<std::string> states; size_t nrules;
};
static std::vector<Subject> subjects;
static std::map<std::string, std::vector<size_t>> byDir;

static std::string slurp(const std::string& f) { std::ifstream i(f); std::stringstream s; s << i.rdbuf(); return s.str(); }

static void loadDir(const std::string& dir, size_t maxBytes, size_t maxFiles)
{
	DIR* d = opendir(dir.c_str()); if (!d) return;
	std::vector<std::string> names; while (dirent* e = readdir(d)) if (e->d_name[0] != '.') names.push_back(e->d_name);
	closedir(d); std::sort(names.begin(), names.end());
	for (auto& n : names)
	{
		if (byDir[dir].size() >= maxFiles) break;
		std::string txt = slurp(dir + "/" + n); if (txt.empty() || txt.size() > maxBytes) continue;
		Subject s; s.file = n; s.dir = dir;
		try { s.d = parser().ParseString(txt); } catch (std::exception&) { continue; }
		std::set<std::string> st(s.d.finalStates.begin(), s.d.finalStates.end());
		std::set<std::pair<std::string, size_t>> ranks; bool clash = false;
		for (auto& t : s.d.transitions) { st.insert(t.third); for (auto& c : t.first) st.insert(c); }
		(void)ranks; (void)clash;
		s.states.assign(st.begin(), st.end()); s.nrules = s.d.transitions.size();
		if (s.states.empty()) continue;
		byDir[dir].push_back(subjects.size()); subjects.push_back(s);
	}
}

// ----------------------------------------------------------------- children
// 0 ok, 1 timeout, 2 crash, 3 exception (out = what())
template <class F>
static int inChild(F f, std::string& out)
{
	int fd[2]; if (pipe(fd) != 0) { perror("pipe"); exit(2); }
	fflush(nullptr);
	pid_t p = fork();
	if (p < 0) { perror("fork"); exit(2); }
	if (p == 0)
	{
		close(fd[0]); std::string r; int code = 0;
		if (!underAsan) { struct rlimit rl; rl.rlim_cur = rl.rlim_max = static_cast<rlim_t>(6) << 30; setrlimit(RLIMIT_AS, &rl); }   // ASan reserves terabytes of address space
		try { r = f(); } catch (std::bad_alloc&) { r = "bad_alloc"; code = 4; } catch (std::exception& e) { r = e.what(); code = 3; }
		size_t off = 0; while (off < r.size()) { ssize_t w = write(fd[1], r.data() + off, r.size() - off); if (w <= 0) break; off += static_cast<size_t>(w); }
		_exit(code);
	}
	close(fd[1]); out.clear();
	auto t0 = std::chrono::steady_clock::now(); bool timedOut = false; char buf[65536];
	while (true)
	{
		double left = LIMIT - std::chrono::duration<double>(std::chrono::steady_clock::now() - t0).count();
		if (left <= 0) { timedOut = true; break; }
		struct pollfd pf; pf.fd = fd[0]; pf.events = POLLIN; int pr = poll(&pf, 1, static_cast<int>(left * 1000) + 1);
		if (pr <= 0) { if (pr < 0 && errno == EINTR) continue; timedOut = true; break; }
		ssize_t n = read(fd[0], buf, sizeof buf); if (n <= 0) break; out.append(buf, static_cast<size_t>(n));
	}
	close(fd[0]);
	if (timedOut) kill(p, SIGKILL);
	int st = 0; waitpid(p, &st, 0);
	if (timedOut) return 1;
	if (WIFSIGNALED(st)) { out = "signal " + vh::str(WTERMSIG(st)); return 2; }
	int code = WEXITSTATUS(st);
	if (code == 4) return 1;          // out of memory under the address-space limit: inconclusive, like a timeout
	if (code == 3) return 3;
	if (code != 0) { out = "exit " + vh::str(code) + " " + out.substr(0, 200); return 2; }
	return 0;
}

// ----------------------------------------------------------------- building automata
struct Built { Aut a; Aut::AlphabetType alpha; std::map<std::string, size_t> sm; };

static void build(const Subject& s, Built& b, vh::Rng* shuffle, int numbering /*0 dense name order, 1 dense permuted, 2 sparse permuted*/, bool reverseAlphabet)
{
	b.alpha = Aut::AlphabetType(new Aut::OnTheFlyAlphabet);
	size_t n = s.states.size(); std::vector<size_t> nums(n);
	for (size_t i = 0; i < n; ++i) nums[i] = (numbering == 2) ? 1000 + 7 * i : i;
	if (numbering != 0 && shuffle) std::shuffle(nums.begin(), nums.end(), *shuffle);
	for (size_t i = 0; i < n; ++i) b.sm[s.states[i]] = nums[i];
	auto tr = b.alpha->GetSymbolTransl();
	if (reverseAlphabet)
	{
		std::vector<std::pair<std::string, size_t>> syms; for (auto& t : s.d.transitions) syms.push_back({t.second, t.first.size()});
		std::sort(syms.rbegin(), syms.rend()); for (auto& sy : syms) (*tr)(Aut::StringRank(sy.first, sy.second));
	}
	b.a.SetAlphabet(b.alpha);
	std::vector<Util::AutDescription::Transition> ts(s.d.transitions.begin(), s.d.transitions.end());
	if (shuffle) std::shuffle(ts.begin(), ts.end(), *shuffle);
	for (auto& t : ts) { std::vector<size_t> ch; for (auto& c : t.first) ch.push_back(b.sm.at(c)); b.a.AddTransition(ch, (*tr)(Aut::StringRank(t.second, t.first.size())), b.sm.at(t.third)); }
	for (auto& f : s.d.finalStates) b.a.SetStateFinal(b.sm.at(f));
}

struct Sel { const char* name; bool down, rec, opt, sim; };
static const Sel SELS[8] = {{"up", 0, 0, 0, 0}, {"up+sim", 0, 0, 0, 1}, {"down-nonrec", 1, 0, 0, 0}, {"down-nonrec+sim", 1, 0, 0, 1}, {"down-rec", 1, 1, 0, 0}, {"down-rec+sim", 1, 1, 0, 1}, {"down-rec-opt", 1, 1, 1, 0}, {"down-rec-opt+sim", 1, 1, 1, 1}};

static bool incl(Aut sm, Aut bg, const Sel& s)
{
	InclParam ip; ip.SetAlgorithm(InclParam::e_algorithm::antichains); ip.SetDirection(s.down ? InclParam::e_direction::downward : InclParam::e_direction::upward);
	ip.SetUseRecursion(s.rec); ip.SetUseDownwardCacheImpl(s.opt); ip.SetUseSimulation(s.sim);
	AutBase::StateDiscontBinaryRelation rel;
	if (s.sim)
	{
		AutBase::StateType n = AutBase::SanitizeAutsForInclusion(sm, bg); Aut u = Aut::UnionDisjointStates(sm, bg);
		SimParam sp; sp.SetRelation(s.down ? SimParam::e_sim_relation::TA_DOWNWARD : SimParam::e_sim_relation::TA_UPWARD); sp.SetNumStates(n);
		rel = u.ComputeSimulation(sp); ip.SetSimulation(&rel);
	}
	return Aut::CheckInclusion(sm, bg, ip);
}

static std::string sizes(const Aut& x) { size_t r = 0; for (auto t : x) { (void)t; ++r; } return vh::str(x.GetUsedStates().size()) + "/" + vh::str(r); }

// evaluates f in a child; returns false if inconclusive / failed (and files crashes, exceptions)
template <class F>
static bool eval(const std::string& what, F f, std::string& out)
{
	R->phase(what); R->count("calls");
	int rc = inChild(f, out);
	if (rc == 0) return true;
	if (rc == 1) { R->count("inconclusive-calls:" + what.substr(0, what.find(' '))); return false; }
	if (rc == 2) { R->violation("C19/child-crash/" + what.substr(0, what.find(' ')), what + ": " + out); return false; }
	R->violation("C19/exception/" + what.substr(0, what.find(' ')), what + ": " + out); return false;
}

static void caseC19(uint64_t idx, vh::Rng& g)
{
	if (subjects.empty()) return;
	// choose the subject and partners from one corpus directory
	auto it = byDir.begin(); std::advance(it, idx % byDir.size());
	const std::vector<size_t>& pool = it->second;
	uint64_t k = idx / byDir.size();
	const Subject& sa = subjects[pool[(k + R->seed) % pool.size()]];
	const Subject& sb = subjects[pool[(k * 7 + 3 + g.below(pool.size())) % pool.size()]];
	const Subject& sc = subjects[pool[g.below(pool.size())]];
	std::string id = it->first.substr(it->first.rfind('/') + 1) + ": " + sa.file + " vs " + sb.file;
	R->desc(id); R->count("dir:" + it->first.substr(it->first.rfind('/') + 1));
	bool big = sa.states.size() > static_cast<size_t>(R->param("bigstates", 60)) || sb.states.size() > static_cast<size_t>(R->param("bigstates", 60));
	Built A, B, C, TA, TB, DA, DTA;
	build(sa, A, nullptr, 0, false); build(sb, B, nullptr, 2, false); build(sc, C, nullptr, 2, false);
	// B and C must use A's alphabet object for the binary operations: rebuild them on it
	auto rebuildOn = [&](const Subject& s, Built& x, Built& host, vh::Rng* sh, int numbering) {
		x.alpha = host.alpha; x.sm.clear(); size_t n = s.states.size(); std::vector<size_t> nums(n); for (size_t i = 0; i < n; ++i) nums[i] = (numbering == 2) ? 1000 + 7 * i : i; if (sh) std::shuffle(nums.begin(), nums.end(), *sh);
		for (size_t i = 0; i < n; ++i) x.sm[s.states[i]] = nums[i]; auto tr = x.alpha->GetSymbolTransl(); x.a = Aut(); x.a.SetAlphabet(x.alpha);
		std::vector<Util::AutDescription::Transition> ts(s.d.transitions.begin(), s.d.transitions.end()); if (sh) std::shuffle(ts.begin(), ts.end(), *sh);
		for (auto& t : ts) { std::vector<size_t> ch; for (auto& c : t.first) ch.push_back(x.sm.at(c)); x.a.AddTransition(ch, (*tr)(Aut::StringRank(t.second, t.first.size())), x.sm.at(t.third)); }
		for (auto& f : s.d.finalStates) x.a.SetStateFinal(x.sm.at(f)); };
	rebuildOn(sb, B, A, nullptr, 2); rebuildOn(sc, C, A, nullptr, 2);
	build(sa, TA, &g, 2, true); rebuildOn(sb, TB, TA, &g, 2);      // twins: bijection into sparse numbers, shuffled rules, alphabet in another order
	build(sa, DA, nullptr, 0, false); build(sa, DTA, &g, 1, true);   // dense / dense-permuted for the simulation image
	std::string o1, o2; long decided = 0;

	// ---- unary relations on A and its twin
	if (eval("emptiness A", [&] { return std::string(A.a.IsLangEmpty() ? "1" : "0"); }, o1) && eval("emptiness twin", [&] { return std::string(TA.a.IsLangEmpty() ? "1" : "0"); }, o2)) { ++decided; if (o1 != o2) R->violation("C19/twin/emptiness", id); }
	if (eval("useless-size A", [&] { return sizes(A.a.RemoveUselessStates()); }, o1) && eval("useless-size twin", [&] { return sizes(TA.a.RemoveUselessStates()); }, o2)) { ++decided; if (o1 != o2) R->violation("C19/twin/useless-size", id + " " + o1 + " vs " + o2); }
	if (eval("unreach-size A", [&] { return sizes(A.a.RemoveUnreachableStates()); }, o1) && eval("unreach-size twin", [&] { return sizes(TA.a.RemoveUnreachableStates()); }, o2)) { ++decided; if (o1 != o2) R->violation("C19/twin/unreach-size", id + " " + o1 + " vs " + o2); }
	if (eval("reduce-size A", [&] { Aut r = A.a.Reduce(); return vh::str(r.GetUsedStates().size()); }, o1) && eval("reduce-size twin", [&] { Aut r = TA.a.Reduce(); return vh::str(r.GetUsedStates().size()); }, o2)) { ++decided; if (o1 != o2) R->violation("C19/twin/reduce-states", id + " " + o1 + " vs " + o2); }
	if (sa.states.size() <= 400)
	{	// downward simulation of the densely numbered subject and of its densely renumbered twin
		size_t n = sa.states.size();
		auto simHash = [&](Built& x) { SimParam sp; sp.SetRelation(SimParam::e_sim_relation::TA_DOWNWARD); sp.SetNumStates(n); auto rel = x.a.ComputeSimulation(sp); uint64_t h = 1469598103934665603ull; size_t cnt = 0;
			for (auto& p : sa.states) for (auto& q : sa.states) { bool v = rel.get(x.sm.at(p), x.sm.at(q)); cnt += v; h = (h ^ (v ? 0x9e : 0x31)) * 1099511628211ull; } return vh::str(h) + "/" + vh::str(cnt); };
		if (eval("down-sim A", [&] { return simHash(DA); }, o1) && eval("down-sim twin", [&] { return simHash(DTA); }, o2)) { ++decided; if (o1 != o2) R->violation("C19/twin/down-simulation-image", id + " " + o1 + " vs " + o2); }
		// upward simulation (of the trimmed automaton, as the library's own callers compute it), over the states that survive trimming
		auto upHash = [&](Built& x) {
			// contract of the upward simulation: no useless states, states numbered densely, their exact number passed
			Aut t = x.a.RemoveUselessStates(); AutBase::StateToStateMap m; size_t c = 0; AutBase::StateToStateTranslWeak tr(m, [&c](const size_t&) { return c++; }); Aut d = t.ReindexStates(tr);
			if (c == 0) return std::string("empty-after-trimming");
			SimParam sp; sp.SetRelation(SimParam::e_sim_relation::TA_UPWARD); sp.SetNumStates(c); auto rel = d.ComputeSimulation(sp); uint64_t h = 1469598103934665603ull; size_t cnt = 0;
			for (auto& p : sa.states) { auto ip = m.find(x.sm.at(p)); if (ip == m.end()) continue; for (auto& q : sa.states) { auto iq = m.find(x.sm.at(q)); if (iq == m.end()) continue; bool v = rel.get(ip->second, iq->second); cnt += v; h = (h ^ (v ? 0x9e : 0x31)) * 1099511628211ull; } } return vh::str(h) + "/" + vh::str(cnt) + "/" + vh::str(c); };
		if (eval("up-sim A", [&] { return upHash(DA); }, o1) && eval("up-sim twin", [&] { return upHash(DTA); }, o2)) { ++decided; R->count("twin-up-simulations"); if (o1 != o2) R->violation("C19/twin/up-simulation-image", id + " " + o1 + " vs " + o2); }
	}
	// ---- inclusion: all selections, both directions, subject pair and twin pair
	int verdict[2] = {-1, -1};
	for (int dir = 0; dir < 2; ++dir)
	{
		Built& X = dir ? B : A; Built& Y = dir ? A : B; Built& TX = dir ? TB : TA; Built& TY = dir ? TA : TB;
		for (const Sel& s : SELS)
		{
			if (big && s.down && !s.sim) { R->count("skipped-heavy-tailed-selection"); continue; }
			bool d1 = eval(std::string("incl ") + s.name, [&] { return std::string(incl(X.a, Y.a, s) ? "1" : "0"); }, o1);
			bool d2 = eval(std::string("incl-twin ") + s.name, [&] { return std::string(incl(TX.a, TY.a, s) ? "1" : "0"); }, o2);
			if (d1 && d2) { ++decided; if (o1 != o2) R->violation(std::string("C19/twin/inclusion-verdict/") + s.name, id + (dir ? " (reversed)" : "") + ": subject " + o1 + " twin " + o2); }
			for (int w = 0; w < 2; ++w) if (w ? d2 : d1)
			{
				int v = (w ? o2 : o1) == "1"; R->count(v ? "verdicts:included" : "verdicts:not-included");
				if (verdict[dir] < 0) verdict[dir] = v; else if (verdict[dir] != v) { R->violation(std::string("C19/selections-disagree/") + s.name, id + (dir ? " (reversed)" : "")); verdict[dir] = v; }
			}
		}
	}
	// ---- language laws (upward algorithm: it always finishes on the corpus)
	const Sel& up = SELS[0];
	if (eval("law A<=A", [&] { return std::string(incl(A.a, A.a, up) ? "1" : "0"); }, o1)) { ++decided; if (o1 != "1") R->violation("C19/law/reflexivity", id); }
	if (eval("law A<=AuB", [&] { return std::string(incl(A.a, Aut::Union(A.a, B.a), up) ? "1" : "0"); }, o1)) { ++decided; if (o1 != "1") R->violation("C19/law/A-subset-of-union", id); }
	if (eval("law B<=AuB", [&] { return std::string(incl(B.a, Aut::Union(A.a, B.a), up) ? "1" : "0"); }, o1)) { ++decided; if (o1 != "1") R->violation("C19/law/B-subset-of-union", id); }
	if (eval("law AnB<=A", [&] { return std::string(incl(Aut::Intersection(A.a, B.a), A.a, up) ? "1" : "0"); }, o1)) { ++decided; if (o1 != "1") R->violation("C19/law/intersection-subset-of-A", id); }
	if (eval("law AnB<=B", [&] { return std::string(incl(Aut::Intersection(A.a, B.a), B.a, up) ? "1" : "0"); }, o1)) { ++decided; if (o1 != "1") R->violation("C19/law/intersection-subset-of-B", id); }
	if (eval("law chain", [&] { Aut ab = Aut::Union(A.a, B.a); Aut abc = Aut::Union(ab, C.a); return std::string(incl(A.a, abc, up) && incl(ab, abc, SELS[1]) ? "1" : "0"); }, o1)) { ++decided; if (o1 != "1") R->violation("C19/law/transitivity-chain", id + " with " + sc.file); }
	if (verdict[0] == 1)
	{	// observed A ⊆ B: then A ⊆ B ∪ C and A ∩ C ⊆ B must be observed too
		if (eval("law transitivity", [&] { return std::string(incl(A.a, Aut::Union(B.a, C.a), up) && incl(Aut::Intersection(A.a, C.a), B.a, up) ? "1" : "0"); }, o1)) { ++decided; if (o1 != "1") R->violation("C19/law/transitivity-observed", id + " with " + sc.file); }
	}
	if (verdict[0] == 1 && verdict[1] == 1) R->count("equivalent-pairs");
	// ---- A ≡ Reduce(A) ≡ trim(A) ≡ reindex(A) ≡ reload(dump(A))
	auto equiv = [&](const Aut& x, const Aut& y) { return incl(x, y, up) && incl(y, x, SELS[1]); };
	if (eval("equiv reduce", [&] { return std::string(equiv(A.a, A.a.Reduce()) ? "1" : "0"); }, o1)) { ++decided; if (o1 != "1") R->violation("C19/equiv/reduce", id); }
	if (eval("equiv useless", [&] { return std::string(equiv(A.a, A.a.RemoveUselessStates()) ? "1" : "0"); }, o1)) { ++decided; if (o1 != "1") R->violation("C19/equiv/remove-useless", id); }
	if (eval("equiv unreach", [&] { return std::string(equiv(A.a, A.a.RemoveUnreachableStates()) ? "1" : "0"); }, o1)) { ++decided; if (o1 != "1") R->violation("C19/equiv/remove-unreachable", id); }
	if (eval("equiv reindex", [&] { AutBase::StateToStateMap m; size_t c = 5; AutBase::StateToStateTranslWeak tr(m, [&c](const size_t&) { c += 3; return c; }); return std::string(equiv(A.a, A.a.ReindexStates(tr)) ? "1" : "0"); }, o1)) { ++decided; if (o1 != "1") R->violation("C19/equiv/reindex", id); }
	if (eval("equiv reload", [&] { AutBase::StateDict sd; for (auto& p : A.sm) sd.insert(std::make_pair(p.first, p.second)); std::string t = A.a.DumpToString(serializer(), sd); Aut r; r.SetAlphabet(A.alpha); r.LoadFromString(parser(), t); return std::string(equiv(A.a, r) ? "1" : "0"); }, o1)) { ++decided; if (o1 != "1") R->violation("C19/equiv/dump-reload", id); }
	R->count("relations-decided", decided);
	if (verdict[0] >= 0 && verdict[1] >= 0 && sa.states.size() >= 10 && sb.states.size() >= 10)
	{
		R->nontrivial(vh::fnv(id)); if (R->wantSample()) R->sample(id + " (" + vh::str(sa.states.size()) + "/" + vh::str(sb.states.size()) + " states, " + vh::str(sa.nrules) + "/" + vh::str(sb.nrules) + " rules; A<=B: " + vh::str(verdict[0]) + ", B<=A: " + vh::str(verdict[1]) + ")");
	}
	else if (verdict[0] < 0 || verdict[1] < 0) R->inconclusive("no-verdict-within-limit");
}

int main(int argc, char** argv)
{
	vh::Run run(argc, argv); R = &run;
	if (run.prop != "C19") { fprintf(stderr, "mon_meta: unknown property %s\n", run.prop.c_str()); return 2; }
	underAsan = run.variant == "asan";
	LIMIT = static_cast<double>(run.param("limit", 5)) * (underAsan ? 4 : 1);
	size_t maxBytes = static_cast<size_t>(run.param("maxbytes", 60000));
	loadDir("/repo/tests/aut_timbuk_smaller", maxBytes, 1000);
	loadDir("/repo/automata/small_timbuk", maxBytes, 1000);
	loadDir("/repo/automata/moderate_artmc_timbuk", maxBytes, 1000);
	if (run.param("artmc", 0)) loadDir("/repo/automata/artmc_timbuk", maxBytes, 1000);
	run.count("subjects", static_cast<long>(subjects.size()));
	run.timeoutSec = 100000;   // the parent only waits; children are limited by wall clock
	uint64_t idx;
	while (run.next(idx)) { vh::Rng g = run.rng(idx); caseC19(idx, g); }
	return run.finish();
}
