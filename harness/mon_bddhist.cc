// History monitor for the BDD encodings (C08): pools of live BDDBottomUpTreeAut and
// BDDTopDownTreeAut objects that may share one transition table; every automaton is observed
// through DumpToString -> parser -> reference model. Per step: the result language is exact
// w.r.t. the operand languages measured immediately before the call, and the operand
// languages measured immediately after equal those before.
#include "vata_util.hh"
#include "gen.hh"
#include <memory>
#ifdef LIBVATA_VERIF
#  include "util/verif_hooks.hh"
#endif

using namespace vu;
static vh::Run* R;
static void vhCount(const char* k) { R->count(k); }
// the same operations with their optional out-parameters supplied (half of the calls): the result must not depend on it
static BDDBottomUpTreeAut unreachOpt(const BDDBottomUpTreeAut& a, bool out) { if (!out) return a.RemoveUnreachableStates(); AutBase::StateHT ht; ht.insert(123456); BDDBottomUpTreeAut r = a.RemoveUnreachableStates(&ht); vhCount("out-parameter:bu-unreach-reachable-set"); return r; }
static BDDTopDownTreeAut unreachOpt(const BDDTopDownTreeAut& a, bool) { return a.RemoveUnreachableStates(); }
template <class A> static A unionOpt(const A& x, const A& y, int mode)
{
	if (mode == 0) return A::Union(x, y);
	AutBase::StateToStateMap ma, mb; vhCount("out-parameter:bdd-union-maps");
	if (mode == 1) return A::Union(x, y, &ma, &mb);
	if (mode == 2) return A::Union(x, y, &ma, nullptr);
	return A::Union(x, y, nullptr, &mb);
}
template <class A> static A isectOpt(const A& x, const A& y, bool out) { if (!out) return A::Intersection(x, y); AutBase::ProductTranslMap pm; vhCount("out-parameter:bdd-isect-map"); return A::Intersection(x, y, &pm); }



struct Obs { RTA a; std::set<St> states; };

struct History
{
	Alpha al; SharedDict sd; std::map<std::string, St> ids; std::string trace; int fresh = 0; bool failed = false; bool relatedNonEmpty = false;
	template <class A> Obs observe(const A& x)
	{
		// states: everything the dump names, also in its States line — a state without rules still occupies
		// its number (UnionDisjointStates demands disjoint state sets, not merely disjoint rule sets)
		std::string text = x.DumpToString(serializer()); Obs o; o.a = fromDump(text, ids); o.states = o.a.states();
		auto d = parser().ParseString(text); for (auto& n : d.states) { auto it = ids.find(n); St v; if (it != ids.end()) v = it->second; else { v = ids.size(); ids[n] = v; } o.states.insert(v); }
		return o;
	}
};

// 1 equal, 0 differs, -1 unknown
static int sameLang(const RTA& a, const RTA& b, const Alpha& al)
{
	int c = rm::cmpLang(a, b, al, 6000); return c < 0 ? -1 : (c == 0 ? 1 : 0);
}

template <class A> struct Handle { std::unique_ptr<A> a; int family; };

template <class A>
struct Pool
{
	std::vector<Handle<A>> v; std::vector<size_t> focus; const char* enc;
	explicit Pool(const char* e) : v(), focus(), enc(e) {}
	size_t pick(vh::Rng& g)
	{
		while (!focus.empty() && focus.back() >= v.size()) focus.pop_back();
		if (!focus.empty() && g.chance(2, 3)) { size_t f = focus[g.below(focus.size())]; if (f < v.size()) return f; }
		return g.below(v.size());
	}
};

static int nextFamily = 0;

template <class A>
static void fail(History& h, Pool<A>& p, const std::string& key, const std::string& detail)
{
	R->violation(std::string("C08/") + p.enc + "/" + key, detail + " after: " + h.trace); h.failed = true;
}

template <class A>
static void loadFresh(History& h, Pool<A>& p, vh::Rng& g)
{
	if (p.v.size() >= 7) return;
	// fresh state names (disjoint from everything loaded before in this history)
	RTA a = g.chance(1, 2) ? gen::randProductiveTA(g, h.al, gen::numbering(g, g.range(1, 3), 0, 100 * h.fresh), g.range(1, 5), 1)
	                      : gen::randTA(g, h.al, gen::numbering(g, g.range(1, 3), 0, 100 * h.fresh), g.range(1, 6));
	++h.fresh;
	std::string t = rm::toTimbuk(a, h.al);
	R->phase(std::string(p.enc) + " LoadFromString");
	Handle<A> x; x.a.reset(new A); x.a->LoadFromString(parser(), t, h.sd.tr); x.family = nextFamily++;
	Obs o = h.observe(*x.a); R->count(std::string(p.enc) + ":load");
	if (sameLang(a, o.a, h.al) == 0) { fail(h, p, "load/language", "dump of the loaded automaton denotes another language than the text\n" + t); return; }
	// the explicit encoding agrees (load -> dump)
	{ Aut e = loadText<Aut>(t); std::map<std::string, St> ids2; RTA re = fromDump(e.DumpToString(serializer()), ids2); if (sameLang(re, o.a, h.al) == 0) { fail(h, p, "load/differs-from-explicit", t); return; } }
	p.v.push_back(std::move(x)); p.focus = {p.v.size() - 1}; h.trace += std::string(p.enc) + ":load" + canon(a) + ";";
}

// one random step on pool p; GetTopDownAut results go to `td` when A is the bottom-up encoding
template <class A>
static void step(History& h, Pool<A>& p, vh::Rng& g, Pool<BDDTopDownTreeAut>* td)
{
	int op = static_cast<int>(g.below(13));
	if (p.v.size() < 2 || op == 0) { loadFresh(h, p, g); return; }
	size_t i = p.pick(g), j = p.pick(g); bool room = p.v.size() < 7;
	Obs bi = h.observe(*p.v[i].a), bj = h.observe(*p.v[j].a);
	bool related = p.v[i].family == p.v[j].family;
	std::string e = p.enc;
	auto post = [&](const std::string& what) {
		Obs ai = h.observe(*p.v[i].a), aj = h.observe(*p.v[j].a);
		if (sameLang(bi.a, ai.a, h.al) == 0) fail(h, p, what + "/operand-lhs-language-changed", "");
		else if (sameLang(bj.a, aj.a, h.al) == 0) fail(h, p, what + "/operand-rhs-language-changed", ""); };
	auto bin = [&](const char* what, A&& res, bool isUnion) {
		std::unique_ptr<A> r(new A(std::move(res))); Obs o = h.observe(*r);
		R->count(e + ":" + what); if (related) R->count(e + ":" + what + "-related-operands");
		int c = rm::checkBin(rm::densify(bi.a), rm::densify(bj.a), rm::densify(o.a), h.al, isUnion, 6000);
		if (c == 0) fail(h, p, std::string(what) + (related ? "/language(related-operands)" : "/language"), std::string("result is not the ") + (isUnion ? "union" : "intersection") + " of the operand languages");
		else if (c < 0) R->inconclusive("rm-cap");
		if (!h.failed) post(what);
		if (related && c == 1 && rm::refEmpty(rm::densify(o.a), h.al) == 0) h.relatedNonEmpty = true;
		Handle<A> x; x.a = std::move(r); x.family = isUnion ? p.v[i].family : nextFamily++;
		p.v.push_back(std::move(x)); p.focus = {i, j, p.v.size() - 1}; };
	auto un = [&](const char* what, A&& res, bool checkUseless) {
		std::unique_ptr<A> r(new A(std::move(res))); Obs o = h.observe(*r); R->count(e + ":" + what);
		if (sameLang(bi.a, o.a, h.al) == 0) fail(h, p, std::string(what) + "/language", "language changed");
		if (checkUseless && !h.failed)
		{
			std::set<St> u = rm::useful(o.a), prod = rm::productive(o.a);
			for (St s : o.a.states()) if (!u.count(s)) { fail(h, p, "useless/dead-state", "a state of the result takes part in no accepting run"); break; }
			if (!h.failed) for (auto& rr : o.a.rules) { bool ok = u.count(rr.par) != 0; for (St c : rr.ch) if (!prod.count(c)) ok = false; if (!ok) { fail(h, p, "useless/dead-rule", ""); break; } }
		}
		if (!h.failed) post(what);
		Handle<A> x; x.a = std::move(r); x.family = p.v[i].family; p.v.push_back(std::move(x)); p.focus = {i, p.v.size() - 1}; };
	try
	{
		switch (op)
		{
			case 1: if (room) { Handle<A> x; x.a.reset(new A(*p.v[i].a)); x.family = p.v[i].family; p.v.push_back(std::move(x)); p.focus = {i, p.v.size() - 1}; h.trace += e + ":copy" + vh::str(i) + ";"; R->count(e + ":copy"); } break;
			case 2: { R->phase(e + " operator="); *p.v[i].a = *p.v[j].a; p.v[i].family = p.v[j].family; p.focus = {i, j}; h.trace += e + ":assign" + vh::str(i) + "<-" + vh::str(j) + ";";
			          Obs ai = h.observe(*p.v[i].a); if (sameLang(bj.a, ai.a, h.al) == 0) fail(h, p, "assign/language", ""); } break;
			case 3: case 4: if (room) { R->phase(e + " Union"); h.trace += e + ":union(" + vh::str(i) + "," + vh::str(j) + ");"; bin("union", unionOpt<A>(*p.v[i].a, *p.v[j].a, static_cast<int>(g.below(6)) % 4 * (g.chance(1, 2) ? 1 : 0)), true); } break;
			case 5: case 6: if (room)
			{
				// precondition: disjoint state sets w.r.t. the actual (possibly shared) table contents —
				// choose the partner among the pool members whose dumped states are disjoint from lhs
				std::vector<size_t> cands;
				for (size_t k = 0; k < p.v.size(); ++k) if (k != i) { Obs ok = h.observe(*p.v[k].a); bool d = true; for (St s : bi.states) if (ok.states.count(s)) { d = false; break; } if (d) cands.push_back(k); }
				if (cands.empty()) { R->count(e + ":uniondisj-skipped-not-disjoint"); break; }
				j = cands[g.below(cands.size())]; bj = h.observe(*p.v[j].a); related = p.v[i].family == p.v[j].family;
				R->phase(e + " UnionDisjointStates"); h.trace += e + ":uniondisj(" + vh::str(i) + "," + vh::str(j) + ");"; bin("uniondisj", A::UnionDisjointStates(*p.v[i].a, *p.v[j].a), true);
			} break;
			case 7: if (room) { R->phase(e + " Intersection"); h.trace += e + ":isect(" + vh::str(i) + "," + vh::str(j) + ");"; bin("isect", isectOpt<A>(*p.v[i].a, *p.v[j].a, g.chance(1, 2)), false); } break;
			case 8: if (room) { R->phase(e + " RemoveUnreachableStates"); h.trace += e + ":unreach" + vh::str(i) + ";"; j = i; bj = bi; un("unreach", unreachOpt(*p.v[i].a, g.chance(1, 2)), false); } break;
			case 9: if (room) { R->phase(e + " RemoveUselessStates"); h.trace += e + ":useless" + vh::str(i) + ";"; j = i; bj = bi; un("useless", p.v[i].a->RemoveUselessStates(), true); } break;
			case 10: if (g.chance(1, 2)) { p.v.erase(p.v.begin() + i); p.focus.clear(); h.trace += e + ":del" + vh::str(i) + ";"; } break;
			case 12: if (p.v.size() + 2 <= 7)
			{	// fork: two copies of one automaton (one shared table) get DIFFERENT extra final states, then are combined
				auto d = parser().ParseString(p.v[i].a->DumpToString(serializer())); std::vector<std::string> names;
				for (auto& t : d.transitions) { names.push_back(t.third); for (auto& c : t.first) names.push_back(c); }
				if (names.size() < 2) break;
				std::string n1 = names[g.below(names.size())], n2 = names[g.below(names.size())];
				std::unique_ptr<A> c1(new A(*p.v[i].a)), c2(new A(*p.v[i].a));
				R->phase(e + " fork: SetStateFinal on two copies"); c1->SetStateFinal(std::stoul(n1)); c2->SetStateFinal(std::stoul(n2));
				h.trace += e + ":fork" + vh::str(i) + "(" + n1 + "," + n2 + ");"; R->count(e + ":fork");
				Obs o1 = h.observe(*c1), o2 = h.observe(*c2);
				RTA e1 = bi.a, e2 = bi.a; e1.fin.insert(h.ids.at(n1)); e2.fin.insert(h.ids.at(n2));
				if (sameLang(e1, o1.a, h.al) == 0 || sameLang(e2, o2.a, h.al) == 0) { fail(h, p, "fork/setfinal-language", ""); break; }
				R->phase(e + " fork: Intersection of the copies"); { A r = A::Intersection(*c1, *c2); Obs o = h.observe(r); if (rm::checkBin(o1.a, o2.a, o.a, h.al, false, 6000) == 0) fail(h, p, "fork/isect/language", "intersection of two copies with different final states"); }
				if (!h.failed) { R->phase(e + " fork: Union of the copies"); A r = A::Union(*c1, *c2); Obs o = h.observe(r); if (rm::checkBin(o1.a, o2.a, o.a, h.al, true, 6000) == 0) fail(h, p, "fork/union/language", "union of two copies with different final states"); }
				if (!h.failed) { Obs a1 = h.observe(*c1), a2 = h.observe(*c2), a0 = h.observe(*p.v[i].a); if (sameLang(o1.a, a1.a, h.al) == 0 || sameLang(o2.a, a2.a, h.al) == 0 || sameLang(bi.a, a0.a, h.al) == 0) fail(h, p, "fork/operand-language-changed", ""); }
				Handle<A> x1; x1.a = std::move(c1); x1.family = p.v[i].family; Handle<A> x2; x2.a = std::move(c2); x2.family = p.v[i].family;
				p.v.push_back(std::move(x1)); p.v.push_back(std::move(x2)); p.focus = {i, p.v.size() - 2, p.v.size() - 1};
			} break;
			case 11:
			{	// SetStateFinal on one handle: final states are per object, also for automata sharing a table
				auto d = parser().ParseString(p.v[i].a->DumpToString(serializer())); std::vector<std::string> names;
				for (auto& t : d.transitions) { names.push_back(t.third); for (auto& c : t.first) names.push_back(c); }
				if (names.empty()) break;
				std::string nm = names[g.below(names.size())]; size_t st = std::stoul(nm);
				std::vector<Obs> before; for (auto& x : p.v) before.push_back(h.observe(*x.a));
				R->phase(e + " SetStateFinal"); p.v[i].a->SetStateFinal(st); h.trace += e + ":setfinal" + vh::str(i) + "(" + nm + ");"; R->count(e + ":setfinal");
				RTA exp = bi.a; exp.fin.insert(h.ids.at(nm));
				Obs ai = h.observe(*p.v[i].a); if (sameLang(exp, ai.a, h.al) == 0) fail(h, p, "setfinal/language", "language is not the one with the state added to the final set");
				for (size_t k = 0; k < p.v.size() && !h.failed; ++k) if (k != i) { Obs ak = h.observe(*p.v[k].a); if (sameLang(before[k].a, ak.a, h.al) == 0) fail(h, p, "setfinal/other-handle-language-changed", "handle " + vh::str(k) + " (sharing the table or not) changed its language"); }
				p.focus = {i};
			} break;
		}
	}
	catch (std::exception& ex) { fail(h, p, "exception", ex.what()); }
	(void)td;
}

static void toTopDown(History& h, Pool<BDDBottomUpTreeAut>& bu, Pool<BDDTopDownTreeAut>& td, vh::Rng& g)
{
	if (bu.v.empty() || td.v.size() >= 7) return;
	size_t i = bu.pick(g); Obs bi = h.observe(*bu.v[i].a);
	R->phase("bu GetTopDownAut"); h.trace += "bu:totopdown" + vh::str(i) + ";";
	try
	{
		Handle<BDDTopDownTreeAut> x; x.a.reset(new BDDTopDownTreeAut(bu.v[i].a->GetTopDownAut())); x.family = nextFamily++;
		Obs o = h.observe(*x.a); R->count("bu:totopdown");
		if (sameLang(bi.a, o.a, h.al) == 0) fail(h, bu, "totopdown/language", "top-down form denotes another language");
		Obs ai = h.observe(*bu.v[i].a); if (!h.failed && sameLang(bi.a, ai.a, h.al) == 0) fail(h, bu, "totopdown/operand-language-changed", "");
		td.v.push_back(std::move(x)); td.focus = {td.v.size() - 1};
	}
	catch (std::exception& ex) { fail(h, bu, "totopdown/exception", ex.what()); }
}

static void caseC08(uint64_t, vh::Rng& g)
{
	History h; h.al = gen::sigma0();
	// a quarter of the histories: one symbol NAME used with two ranks (s2/1 written as s3, which has rank 2) — the
	// bottom-up encoding has a single code for the name and keeps the arities apart by the length of the child tuple
	// (seeded change m108: a memo in GetTopDownAut keyed without the arity)
	if (g.chance(1, 4)) { h.al.alias.assign(h.al.rank.size(), -1); h.al.alias[2] = 3; R->count("histories-with-a-symbol-name-at-two-ranks"); }
	vu::dumpAlphabet() = &h.al;
	Pool<BDDBottomUpTreeAut> bu("bu"); Pool<BDDTopDownTreeAut> td("td");
	int L = g.range(10, static_cast<int>(R->param("L", 40)));
	int mode = static_cast<int>(g.below(3));  // 0: bottom-up only, 1: top-down only, 2: both with conversions
	for (int st = 0; st < L && !h.failed; ++st)
	{
		R->count("steps"); R->desc(h.trace);
		if (mode == 0) step(h, bu, g, &td);
		else if (mode == 1) step(h, td, g, static_cast<Pool<BDDTopDownTreeAut>*>(nullptr));
		else { int k = static_cast<int>(g.below(5)); if (k < 2) step(h, bu, g, &td); else if (k < 4) step(h, td, g, static_cast<Pool<BDDTopDownTreeAut>*>(nullptr)); else toTopDown(h, bu, td, g); }
	}
	R->desc(h.trace);
	if (h.relatedNonEmpty) { R->nontrivial(vh::fnv(h.trace)); if (R->wantSample()) R->sample(h.trace); }
}

// ----------------------------------------------------------------- single operations on generated pairs
// (the pair generators of the inclusion monitors: structured families with repeated child states,
// unary cycles, many tuples per symbol — shapes the tiny automata of the histories rarely have)
template <class A>
static void pairOps(const char* enc, const Alpha& al, const RTA& a, const RTA& b, const std::string& text, vh::Rng& g)
{
	std::string k = std::string("C08/") + enc + "/pair";
	try
	{
		SharedDict sd; std::map<std::string, St> ids;
		A X, Y; X.LoadFromString(parser(), rm::toTimbuk(a, al, "A", "p"), sd.tr); Y.LoadFromString(parser(), rm::toTimbuk(b, al, "B", "r"), sd.tr);
		auto obs = [&](const A& x) { return fromDump(x.DumpToString(serializer()), ids); };
		RTA x0 = obs(X), y0 = obs(Y);
		if (rm::cmpLang(a, x0, al) > 0 || rm::cmpLang(b, y0, al) > 0) { R->violation(k + "/load/language", text); return; }
		R->phase(std::string(enc) + " pair Intersection"); { RTA r = obs(isectOpt<A>(X, Y, g.chance(1, 2))); if (rm::checkBin(x0, y0, r, al, false) == 0) R->violation(k + "/isect/language", text); }
		R->phase(std::string(enc) + " pair Intersection(swapped)"); { RTA r = obs(A::Intersection(Y, X)); if (rm::checkBin(x0, y0, r, al, false) == 0) R->violation(k + "/isect/language", text); }
		R->phase(std::string(enc) + " pair Union"); { RTA r = obs(unionOpt<A>(X, Y, static_cast<int>(g.below(4)))); if (rm::checkBin(x0, y0, r, al, true) == 0) R->violation(k + "/union/language", text); }
		R->phase(std::string(enc) + " pair UnionDisjointStates"); { RTA r = obs(A::UnionDisjointStates(X, Y)); if (rm::checkBin(x0, y0, r, al, true) == 0) R->violation(k + "/uniondisj/language", text); }
		R->phase(std::string(enc) + " pair RemoveUselessStates");
		{ RTA r = obs(Y.RemoveUselessStates()); if (rm::cmpLang(y0, r, al) > 0) R->violation(k + "/useless/language", text); std::set<St> u = rm::useful(r); for (St s : r.states()) if (!u.count(s)) { R->violation(k + "/useless/dead-state", text); break; } }
		R->phase(std::string(enc) + " pair RemoveUnreachableStates"); { RTA r = obs(unreachOpt(Y, g.chance(1, 2))); if (rm::cmpLang(y0, r, al) > 0) R->violation(k + "/unreach/language", text); }
		if (obs(X) != x0 || obs(Y) != y0) R->violation(k + "/operand-changed", text);
		R->count(std::string(enc) + ":pair-cases");
	}
	catch (std::exception& e) { R->violation(k + "/exception", std::string(e.what()) + "\n" + text); }
}

static void caseC08pair(vh::Rng& g)
{
	Alpha al; RTA a, b; std::string kind; gen::genPair(g, 5, 9, al, a, b, kind, true);
	vu::dumpAlphabet() = nullptr;
	if (a.states().size() > 8 || b.states().size() > 8) { R->count("pair-skipped-large"); return; }
	if (g.chance(1, 4))
	{	// one symbol name at two ranks (see caseC08)
		int i = -1, j = -1; for (size_t x = 0; x < al.rank.size() && i < 0; ++x) for (size_t y = x + 1; y < al.rank.size(); ++y) if (al.rank[x] >= 0 && al.rank[y] >= 0 && al.rank[x] != al.rank[y]) { i = static_cast<int>(x); j = static_cast<int>(y); break; }
		if (i >= 0) { al.alias.assign(al.rank.size(), -1); al.alias[j] = i; R->count("pairs-with-a-symbol-name-at-two-ranks"); kind += "+overloaded-name"; }
	}
	vu::dumpAlphabet() = &al;
	std::string text = rm::toTimbuk(a, al, "A", "p") + rm::toTimbuk(b, al, "B", "r"); R->desc(text); R->count("pair:" + kind);
	pairOps<BDDBottomUpTreeAut>("bu", al, a, b, text, g); pairOps<BDDTopDownTreeAut>("td", al, a, b, text, g);
	{	// bottom-up -> top-down conversion keeps the language
		try { SharedDict sd; BDDBottomUpTreeAut X; X.LoadFromString(parser(), rm::toTimbuk(b, al, "B", "r"), sd.tr); std::map<std::string, St> ids; RTA t = fromDump(X.GetTopDownAut().DumpToString(serializer()), ids); if (rm::cmpLang(b, t, al) > 0) R->violation("C08/bu/pair/totopdown/language", text); }
		catch (std::exception& e) { R->violation("C08/bu/pair/totopdown/exception", e.what()); }
	}
	if (g.below(static_cast<uint64_t>(R->param("cli_every", 60))) == 0)
	{	// the same operations through `vata -r bdd-bu|bdd-td load|union|isect [-p|-s]`
		std::string fa = R->outdir + "/" + R->tag + ".A.txt", fb = R->outdir + "/" + R->tag + ".B.txt"; writeFile(fa, rm::toTimbuk(a, al, "A")); writeFile(fb, rm::toTimbuk(b, al, "B"));
		for (const char* enc : {"bdd-bu", "bdd-td"})
		{
			auto run = [&](const std::string& what, const std::string& args, RTA& out) {
				int rc = 0; R->phase(std::string("cli ") + enc + " " + what); R->count(std::string("cli:") + enc + ":" + what); std::string txt = runVata(std::string("-r ") + enc + " " + args, rc);
				if (rc != 0) { R->violation(std::string("C08/cli/") + enc + "/" + what + "/failed", "exit " + vh::str(rc) + ": " + txt.substr(0, 300)); return false; }
				try { std::map<std::string, St> ids; out = fromDump(txt, ids); } catch (std::exception& e) { R->violation(std::string("C08/cli/") + enc + "/" + what + "/unparsable-output", e.what()); return false; }
				return true; };
			RTA r; std::string k = std::string("C08/cli/") + enc;
			if (run("load", "load " + fa, r) && rm::cmpLang(a, r, al) > 0) R->violation(k + "/load/language", text);
			if (run("union", "union " + fa + " " + fb, r) && rm::checkBin(a, b, r, al, true) == 0) R->violation(k + "/union/language", text);
			if (run("isect", "isect " + fa + " " + fb, r) && rm::checkBin(a, b, r, al, false) == 0) R->violation(k + "/isect/language", text);
			if (run("load-s", "-s load " + fb, r)) { if (rm::cmpLang(b, r, al) > 0) R->violation(k + "/load-s/language", text); std::set<St> u = rm::useful(r); for (St q : r.states()) if (!u.count(q)) { R->violation(k + "/load-s/dead-state", text); break; } }
			if (run("load-p", "-p load " + fb, r) && rm::cmpLang(b, r, al) > 0) R->violation(k + "/load-p/language", text);
			if (run("union-s", "-s union " + fa + " " + fb, r) && rm::checkBin(a, b, r, al, true) == 0) R->violation(k + "/union-s/language", text);
		}
	}
	if (rm::refEmpty(a, al) == 0 && rm::refEmpty(b, al) == 0) { R->nontrivial(vh::fnv("pair" + text)); if (R->wantSample() && g.chance(1, 50)) R->sample("pair operations: " + kind + "\n" + text); }
}

int main(int argc, char** argv)
{
	vh::Run run(argc, argv); R = &run;
	if (run.prop != "C08") { fprintf(stderr, "mon_bddhist: unknown property %s\n", run.prop.c_str()); return 2; }
	uint64_t idx;
	while (run.next(idx)) { vh::Rng g = run.rng(idx); if (idx % 3 == 2) caseC08pair(g); else caseC08(idx, g); }
#ifdef LIBVATA_VERIF
	for (int i = 0; i < VATA::Verif::NUM_COUNTERS; ++i) if (VATA::Verif::Counters()[i]) run.count(std::string("reach:") + VATA::Verif::CounterName(i), static_cast<long>(VATA::Verif::Counters()[i]));
#endif
	return run.finish();
}
