// Shadow-function monitors for the MTBDD package.
//   C17: value semantics of construction / unary, binary, ternary apply / void-apply visitors /
//        Project / Rename / ExtendWith / GetMtbddForPrefix / GetPaths, and canonicity
//        (a == b  <=>  same function) over all live handles of the process-wide node store
//   C18: node lifetime — every live handle keeps its function after every step, the guarded
//        hooks give an exact reference-count audit of both unique tables at every step, and the
//        tables are back to their initial size when every handle of a history is gone
// Oracle: total truth tables (2^NV entries) kept beside every handle.
#include "common.hh"
#include <memory>
#include <thread>
#include <functional>
#include <unordered_map>
#include <unordered_set>
#include <boost/functional/hash.hpp>
#include <vata/vata.hh>
#include <vata/sym_var_asgn.hh>
#include <vata/util/triple.hh>
#include <vata/util/convert.hh>

// leaf type private to the harness (so that the node store of this instantiation is touched by
// nothing but these histories)
struct PLeaf
{
	unsigned a; unsigned char b;
	PLeaf(unsigned x = 0, unsigned char y = 0) : a(x), b(y) {}
	bool operator==(const PLeaf& o) const { return a == o.a && b == o.b; }
	bool operator!=(const PLeaf& o) const { return !(*this == o); }
	bool operator<(const PLeaf& o) const { return a != o.a ? a < o.a : b < o.b; }
};
inline size_t hash_value(const PLeaf& l) { size_t s = 0; boost::hash_combine(s, l.a); boost::hash_combine(s, l.b); return s; }
inline std::ostream& operator<<(std::ostream& os, const PLeaf& l) { return os << l.a << "/" << static_cast<int>(l.b); }

#include "mtbdd/ondriks_mtbdd.hh"
#include "mtbdd/apply1func.hh"
#include "mtbdd/apply2func.hh"
#include "mtbdd/apply3func.hh"
#include "mtbdd/void_apply1func.hh"
#include "mtbdd/void_apply2func.hh"

using namespace VATA; using namespace VATA::MTBDDPkg;
static vh::Run* R;
static int opSel;

// ----------------------------------------------------------------- leaf operations (palette)
template <class D> struct Ops;
template <> struct Ops<unsigned>
{
	static unsigned mk(uint64_t r) { return static_cast<unsigned>(r % 4); }
	static unsigned f1(unsigned a) { return opSel ? a * 3 + 1 : a % 3; }
	static unsigned f2(unsigned a, unsigned b) { switch (opSel) { case 0: return a + b; case 1: return a * 2 + b; case 2: return std::max(a, b); case 3: return (a == b) ? 1 : 0; default: return 7; } }   // commutative, not, idempotent, comparison, constant
	static unsigned f3(unsigned a, unsigned b, unsigned c) { return opSel ? (a ? b : c) : a + 2 * b + 3 * c; }
	static unsigned join(unsigned a, unsigned b) { return std::max(a, b); }
};
template <> struct Ops<PLeaf>
{
	static PLeaf mk(uint64_t r) { return PLeaf(static_cast<unsigned>(r % 3), static_cast<unsigned char>((r >> 8) % 2)); }
	static PLeaf f1(const PLeaf& a) { return opSel ? PLeaf(a.a + 1, a.b) : PLeaf(a.a % 2, 0); }
	static PLeaf f2(const PLeaf& a, const PLeaf& b) { switch (opSel) { case 0: return PLeaf(a.a + b.a, a.b ^ b.b); case 1: return PLeaf(a.a * 2 + b.a, a.b); case 2: return std::max(a, b); case 3: return PLeaf(a == b, 0); default: return PLeaf(5, 1); } }
	static PLeaf f3(const PLeaf& a, const PLeaf& b, const PLeaf& c) { return opSel ? (a.a ? b : c) : PLeaf(a.a + 2 * b.a + 3 * c.a, a.b); }
	static PLeaf join(const PLeaf& a, const PLeaf& b) { return std::max(a, b); }
};

GCC_DIAG_OFF(effc++)
template <class D> struct F1 : Apply1Functor<F1<D>, D, D> { D ApplyOperation(const D& a) { return Ops<D>::f1(a); } };
template <class D> struct F2 : Apply2Functor<F2<D>, D, D, D> { D ApplyOperation(const D& a, const D& b) { return Ops<D>::f2(a, b); } };
template <class D> struct F3 : Apply3Functor<F3<D>, D, D, D, D> { D ApplyOperation(const D& a, const D& b, const D& c) { return Ops<D>::f3(a, b, c); } };
template <class D> struct FJoin : Apply2Functor<FJoin<D>, D, D, D> { D ApplyOperation(const D& a, const D& b) { return Ops<D>::join(a, b); } };
template <class D> struct V1 : VoidApply1Functor<V1<D>, D> { std::set<D> seen; void ApplyOperation(const D& a) { seen.insert(a); } };
template <class D> struct V2 : VoidApply2Functor<V2<D>, D, D>
{
	std::set<std::pair<D, D>> seen; int stopAfter = -1; int calls = 0;
	void ApplyOperation(const D& a, const D& b) { ++calls; seen.insert(std::make_pair(a, b)); if (stopAfter >= 0 && calls >= stopAfter) this->stopProcessing(); }
};
GCC_DIAG_ON(effc++)

template <class D> struct H { std::unique_ptr<OndriksMTBDD<D>> m; std::vector<D> tab; };

template <class D>
static bool buildFromAsgn(vh::Rng& g, int NV, H<D>& h, std::string& trace)
{
	typedef OndriksMTBDD<D> M;
	if (g.chance(1, 5)) { D v = Ops<D>::mk(g()); h.m.reset(new M(v)); h.tab.assign(1u << NV, v); trace += "const;"; return true; }
	SymbolicVarAsgn a(NV); std::vector<int> pat(NV);
	for (int i = 0; i < NV; ++i) { int c = static_cast<int>(g.below(3)); pat[i] = c; a.SetIthVariableValue(i, c == 0 ? SymbolicVarAsgn::ZERO : (c == 1 ? SymbolicVarAsgn::ONE : SymbolicVarAsgn::DONT_CARE)); }
	D v = Ops<D>::mk(g()), d = Ops<D>::mk(g());
	h.m.reset(new M(a, v, d)); h.tab.resize(1u << NV);
	for (unsigned x = 0; x < (1u << NV); ++x) { bool m = true; for (int i = 0; i < NV; ++i) { int b = (x >> i) & 1; if (pat[i] != 2 && pat[i] != b) m = false; } h.tab[x] = m ? v : d; }
	trace += "cube;"; return true;
}

// exact audit of the node store through the guarded hooks
template <class D>
static bool auditStore(const std::vector<H<D>>& pool, const std::vector<uintptr_t>& extraRoots, std::string& why)
{
#ifdef LIBVATA_VERIF
	typedef OndriksMTBDD<D> M;
	struct N { bool leaf; uintptr_t rc, lo, hi; };
	std::unordered_map<uintptr_t, N> nodes; bool ok = true;
	M::VerifForEachNode([&](uintptr_t addr, bool leaf, uintptr_t rc, uintptr_t lo, uintptr_t hi, uintptr_t var, uintptr_t klo, uintptr_t khi, uintptr_t kvar, const D*) {
		N n; n.leaf = leaf; n.rc = rc; n.lo = lo; n.hi = hi;
		if (!nodes.insert(std::make_pair(addr, n)).second) { ok = false; why = "a node is stored twice"; }
		if (!leaf) { if (lo != klo || hi != khi || var != kvar) { ok = false; why = "an internal node is stored under a key that differs from its fields"; } if (lo == hi) { ok = false; why = "an internal node with low == high is stored (not reduced)"; } } });
	if (!ok) return false;
	if (nodes.size() != M::VerifLeafCacheSize() + M::VerifInternalCacheSize()) { why = "table sizes disagree with the node walk"; return false; }
	std::unordered_map<uintptr_t, uintptr_t> refs;
	for (auto& p : nodes) if (!p.second.leaf)
	{
		if (!nodes.count(p.second.lo) || !nodes.count(p.second.hi)) { why = "a child of a stored node is not stored (dangling)"; return false; }
		refs[p.second.lo]++; refs[p.second.hi]++;
	}
	for (auto& h : pool) { uintptr_t r = h.m->VerifRoot(); if (!nodes.count(r)) { why = "the root of a live handle is not in the store"; return false; } refs[r]++; }
	for (uintptr_t r : extraRoots) refs[r]++;
	for (auto& p : nodes) if (p.second.rc != refs[p.first]) { why = std::string(p.second.leaf ? "leaf" : "internal node") + " has reference count " + vh::str(p.second.rc) + " but " + vh::str(refs[p.first]) + " referrers"; return false; }
	return true;
#else
	(void)pool; (void)extraRoots; (void)why; return true;
#endif
}

template <class D>
static void history(vh::Rng& g, const std::string& prop, bool lifetimeOnly)
{
	typedef OndriksMTBDD<D> M;
	const int NV = g.range(3, static_cast<int>(R->param("NV", 6)));
	const unsigned T = 1u << NV;
#ifdef LIBVATA_VERIF
	size_t l0 = M::VerifLeafCacheSize(), i0 = M::VerifInternalCacheSize();
#endif
	bool reuse = g.chance(1, 2);    // the library keeps one functor object per loop: reuse them across applies
	// a sixth of the lifetime histories: some copies and destructions happen on another thread that is joined at
	// once — never concurrently, which a library without locks allows; the node store is process-wide, whichever
	// thread drops the last reference (seeded change m86: unique tables made thread_local)
	bool foreign = lifetimeOnly && g.chance(1, 6); if (foreign) R->count("histories-with-steps-on-another-thread");
	std::string trace = reuse ? "[functors reused]" : "[fresh functors]"; bool failed = false; bool sharing = false;
	{
		F1<D> rf1; F2<D> rf2; F3<D> rf3; V2<D> rv2; V1<D> rv1;   // reused across steps when `reuse` (also after a stopProcessing)
		std::vector<H<D>> pool; int L = g.range(10, 50);
		auto viol = [&](const std::string& key, const std::string& d) { R->violation(prop + "/" + key, d + " after " + trace); failed = true; };
		for (int st = 0; st < L && !failed; ++st)
		{
			R->count("steps"); int op = static_cast<int>(g.below(lifetimeOnly ? 11 : 14)); R->desc(trace);
			bool room = pool.size() < 8;
			if (pool.empty() || op < 2) { if (room) { H<D> h; buildFromAsgn(g, NV, h, trace); pool.push_back(std::move(h)); } }
			else
			{
				size_t i = g.below(pool.size()), j = g.below(pool.size()), k = g.below(pool.size());
				R->phase(("mtbdd op " + vh::str(op)).c_str());
				switch (op)
				{
					case 2: if (room) { H<D> h; if (foreign && g.chance(1, 2)) { std::thread t([&] { h.m.reset(new M(*pool[i].m)); }); t.join(); trace += "copy(on another thread);"; } else { h.m.reset(new M(*pool[i].m)); trace += "copy;"; } h.tab = pool[i].tab; pool.push_back(std::move(h)); sharing = true; } break;
					case 3: *pool[i].m = *pool[j].m; pool[i].tab = pool[j].tab; trace += (i == j ? "self-assign;" : "assign;"); if (i == j) R->count("self-assignment"); sharing = true; break;
					case 4: if (foreign && g.chance(1, 2)) { std::thread t([&] { pool.erase(pool.begin() + i); }); t.join(); trace += "del(on another thread);"; } else { pool.erase(pool.begin() + i); trace += "del;"; } break;
					case 5: if (room) { opSel = static_cast<int>(g.below(2)); H<D> h; if (reuse) h.m.reset(new M(rf1(*pool[i].m))); else { F1<D> f; h.m.reset(new M(f(*pool[i].m))); } for (auto& v : pool[i].tab) h.tab.push_back(Ops<D>::f1(v)); pool.push_back(std::move(h)); trace += "apply1;"; } break;
					case 6: case 7: if (room) { opSel = static_cast<int>(g.below(5)); H<D> h; if (reuse) h.m.reset(new M(rf2(*pool[i].m, *pool[j].m))); else { F2<D> f; h.m.reset(new M(f(*pool[i].m, *pool[j].m))); } for (unsigned x = 0; x < T; ++x) h.tab.push_back(Ops<D>::f2(pool[i].tab[x], pool[j].tab[x])); pool.push_back(std::move(h)); trace += "apply2;"; } break;
					case 8: if (room) { opSel = static_cast<int>(g.below(2)); H<D> h; if (reuse) h.m.reset(new M(rf3(*pool[i].m, *pool[j].m, *pool[k].m))); else { F3<D> f; h.m.reset(new M(f(*pool[i].m, *pool[j].m, *pool[k].m))); } for (unsigned x = 0; x < T; ++x) h.tab.push_back(Ops<D>::f3(pool[i].tab[x], pool[j].tab[x], pool[k].tab[x])); pool.push_back(std::move(h)); trace += "apply3;"; } break;
					case 9: { opSel = static_cast<int>(g.below(5)); std::vector<D> t; for (unsigned x = 0; x < T; ++x) t.push_back(Ops<D>::f2(pool[i].tab[x], pool[j].tab[x])); if (reuse) *pool[i].m = rf2(*pool[i].m, *pool[j].m); else { F2<D> f; *pool[i].m = f(*pool[i].m, *pool[j].m); } pool[i].tab = t; trace += "apply2-assign;"; } break;
					case 10: if (room) { // a temporary result that dies at once
						opSel = static_cast<int>(g.below(5)); if (reuse) { M tmp = rf2(*pool[i].m, *pool[j].m); (void)tmp; } else { F2<D> f; M tmp = f(*pool[i].m, *pool[j].m); (void)tmp; } trace += "apply2-temporary;"; } break;
					case 11: { // void apply visitors: exactly the reachable leaf tuples are visited
						V2<D> fv; V2<D>& v = reuse ? rv2 : fv; v.seen.clear(); v.stopAfter = -1; v.calls = 0;
						v(*pool[i].m, *pool[j].m); std::set<std::pair<D, D>> exp; for (unsigned x = 0; x < T; ++x) exp.insert(std::make_pair(pool[i].tab[x], pool[j].tab[x]));
						if (v.seen != exp) viol("void-apply2/visited-set", "visited " + vh::str(v.seen.size()) + " leaf pairs, expected " + vh::str(exp.size()));
						V1<D> fw; V1<D>& w = reuse ? rv1 : fw; w.seen.clear(); w(*pool[k].m); std::set<D> e1(pool[k].tab.begin(), pool[k].tab.end()); if (w.seen != e1) viol("void-apply1/visited-set", "");
						trace += "void-apply;"; R->count("void-applies"); } break;
					case 12: { // stopProcessing is respected: no further leaf is visited (and the stop does not outlive the call)
						V2<D> fv; V2<D>& v = reuse ? rv2 : fv; v.seen.clear(); v.calls = 0; v.stopAfter = 1;
						v(*pool[i].m, *pool[j].m); if (v.calls > 1) viol("void-apply2/stop-ignored", "visitor called " + vh::str(v.calls) + " times after stopProcessing");
						if (v.calls < 1) viol("void-apply2/nothing-visited", "no leaf pair visited");
						std::set<std::pair<D, D>> exp; for (unsigned x = 0; x < T; ++x) exp.insert(std::make_pair(pool[i].tab[x], pool[j].tab[x])); for (auto& p : v.seen) if (!exp.count(p)) viol("void-apply2/visited-unreachable-pair", "");
						trace += "void-apply-stop;"; R->count("void-applies-stopped"); } break;
					default: { // accumulate several cubes with an idempotent join into one handle
						FJoin<D> fj; H<D> c; buildFromAsgn(g, NV, c, trace); std::vector<D> t; for (unsigned x = 0; x < T; ++x) t.push_back(Ops<D>::join(pool[i].tab[x], c.tab[x])); *pool[i].m = fj(*pool[i].m, *c.m); pool[i].tab = t; trace += "join-cube;"; } break;
				}
			}
			// ---- every live handle still denotes its function (total assignments only)
			R->phase("re-read all MTBDD handles");
			for (size_t a = 0; a < pool.size() && !failed; ++a)
			{
				for (unsigned x = 0; x < T; ++x) { SymbolicVarAsgn as(NV, x); if (!(pool[a].m->GetValue(as) == pool[a].tab[x])) { viol(lifetimeOnly ? "live-handle-changed" : "value", "handle " + vh::str(a) + " assignment " + vh::str(x) + ": got " + vh::str(pool[a].m->GetValue(as)) + " expected " + vh::str(pool[a].tab[x])); break; } }
				if (!lifetimeOnly) for (size_t b = 0; b < a && !failed; ++b) { bool eq = (*pool[a].m == *pool[b].m), teq = (pool[a].tab == pool[b].tab); if (eq != teq) viol(eq ? "canonicity/equal-handles-different-functions" : "canonicity/same-function-different-roots", ""); }
			}
			if (!failed && lifetimeOnly) { std::string why; if (!auditStore<D>(pool, {}, why)) viol("store-audit", why); else R->count("store-audits"); }
		}
		R->desc(trace);
	}
#ifdef LIBVATA_VERIF
	if (!lifetimeOnly) { }
	else if (!failed && (M::VerifLeafCacheSize() != l0 || M::VerifInternalCacheSize() != i0))
		R->violation(prop + "/store-not-back-to-initial-size", "leaves " + vh::str(l0) + " -> " + vh::str(M::VerifLeafCacheSize()) + ", internal nodes " + vh::str(i0) + " -> " + vh::str(M::VerifInternalCacheSize()) + " after " + trace);
	else R->count("conservation-checks");
#endif
	if (sharing && !failed) { R->nontrivial(vh::fnv(trace + vh::str(NV) + vh::str(g()))); if (R->wantSample()) R->sample("NV=" + vh::str(NV) + " " + trace); }
}

// ----------------------------------------------------------------- structural operations (C17)
static void caseStructural(vh::Rng& g)
{
	typedef unsigned D; typedef OndriksMTBDD<D> M;
	const int NV = g.range(2, 5), EXT = g.range(1, 2); const unsigned T = 1u << NV;
	std::vector<D> tab(T, 0); M f(static_cast<D>(0)); std::string trace = "structural NV=" + vh::str(NV) + ":";
	{ FJoin<D> mx; int k = g.range(1, 4); for (int c = 0; c < k; ++c) { H<D> h; std::string t; buildFromAsgn(g, NV, h, t); f = mx(f, *h.m); for (unsigned x = 0; x < T; ++x) tab[x] = std::max(tab[x], h.tab[x]); } }
	{ std::ostringstream os; for (auto v : tab) os << v; trace += os.str(); }
	R->desc(trace);
	bool nonconst = false; for (unsigned x = 1; x < T; ++x) if (tab[x] != tab[0]) nonconst = true;
	if (nonconst) { R->nontrivial(vh::fnv(trace)); if (R->wantSample()) R->sample(trace); }
	// Project (idempotent combination): op(f[x_v:=0], f[x_v:=1])
	{ R->phase("Project"); int v = static_cast<int>(g.below(NV)); FJoin<D> mx; M p = f.Project([v](size_t var) { return static_cast<int>(var) == v; }, mx);
	  for (unsigned x = 0; x < T; ++x) { SymbolicVarAsgn as(NV, x); D exp = std::max(tab[x & ~(1u << v)], tab[x | (1u << v)]); if (p.GetValue(as) != exp) { R->violation("C17/project/value", trace + " var " + vh::str(v)); break; } } R->count("project"); }
	// Rename with a monotone map
	{ R->phase("Rename"); int mul = g.range(1, 2), add = g.range(0, 1); M r = f.Rename([mul, add](size_t var) { return var * mul + add; }); int W = NV * mul + add + 1;
	  for (unsigned x = 0; x < T; ++x) { SymbolicVarAsgn as(W); for (int i = 0; i < W; ++i) as.SetIthVariableValue(i, g.chance(1, 2) ? SymbolicVarAsgn::ZERO : SymbolicVarAsgn::ONE); for (int i = 0; i < NV; ++i) as.SetIthVariableValue(i * mul + add, ((x >> i) & 1) ? SymbolicVarAsgn::ONE : SymbolicVarAsgn::ZERO); if (r.GetValue(as) != tab[x]) { R->violation("C17/rename/value", trace); break; } } R->count("rename"); }
	// ExtendWith a prefix pattern over EXT variables at offset NV, then GetMtbddForPrefix
	{ R->phase("ExtendWith"); SymbolicVarAsgn pre(EXT); std::vector<int> pat(EXT);
	  for (int i = 0; i < EXT; ++i) { int t = static_cast<int>(g.below(3)); pat[i] = t; pre.SetIthVariableValue(i, t == 0 ? SymbolicVarAsgn::ZERO : (t == 1 ? SymbolicVarAsgn::ONE : SymbolicVarAsgn::DONT_CARE)); }
	  M e = f.ExtendWith(pre, NV); bool ok = true;
	  for (unsigned x = 0; x < (1u << (NV + EXT)) && ok; ++x) { SymbolicVarAsgn as(NV + EXT, x); bool m = true; for (int i = 0; i < EXT; ++i) { int b = (x >> (NV + i)) & 1; if (pat[i] != 2 && pat[i] != b) m = false; } D exp = m ? tab[x & (T - 1)] : f.GetDefaultValue(); if (e.GetValue(as) != exp) { R->violation("C17/extend-with/value", trace); ok = false; } }
	  R->phase("GetMtbddForPrefix");
	  for (unsigned px = 0; px < (1u << EXT) && ok; ++px) { SymbolicVarAsgn pa(EXT, px); M s = e.GetMtbddForPrefix(pa, NV); bool m = true; for (int i = 0; i < EXT; ++i) { int b = (px >> i) & 1; if (pat[i] != 2 && pat[i] != b) m = false; }
	    for (unsigned x = 0; x < T; ++x) { SymbolicVarAsgn as(NV, x); D exp = m ? tab[x] : f.GetDefaultValue(); if (s.GetValue(as) != exp) { R->violation("C17/prefix-selection/value", trace); ok = false; break; } } }
	  R->count("extend+prefix"); }
	// GetPaths: the paths partition the space and agree with GetValue
	{ R->phase("GetPaths"); auto paths = f.GetPaths(); std::vector<int> cover(T, 0); bool ok = true;
	  for (auto& p : paths) for (unsigned x = 0; x < T; ++x) { bool m = true; for (size_t i = 0; i < p.first.length() && i < static_cast<size_t>(NV); ++i) { char c = p.first.GetIthVariableValue(i); int b = (x >> i) & 1; if (c == SymbolicVarAsgn::ZERO && b) m = false; if (c == SymbolicVarAsgn::ONE && !b) m = false; } if (m) { cover[x]++; if (p.second != tab[x]) ok = false; } }
	  for (unsigned x = 0; x < T; ++x) if (cover[x] != 1) ok = false;
	  if (!ok) R->violation("C17/get-paths/partition-or-value", trace); R->count("get-paths"); }
}

static void caseC17(uint64_t idx, vh::Rng& g)
{
	switch (vh::splitmix64(idx * 11 + 5) % 4) { case 0: caseStructural(g); break; case 1: history<PLeaf>(g, "C17", false); break; default: history<unsigned>(g, "C17", false); break; }
}
static void caseC18(uint64_t idx, vh::Rng& g)
{
	// the private leaf type for the conservation clause; `unsigned` as well (its store is only used by this monitor process)
	if (idx % 3 == 0) history<unsigned>(g, "C18", true); else history<PLeaf>(g, "C18", true);
}

int main(int argc, char** argv)
{
	vh::Run run(argc, argv); R = &run;
	void (*fn)(uint64_t, vh::Rng&) = nullptr;
	if (run.prop == "C17") fn = caseC17; else if (run.prop == "C18") fn = caseC18;
	else { fprintf(stderr, "mon_mtbdd: unknown property %s\n", run.prop.c_str()); return 2; }
#ifndef LIBVATA_VERIF
	if (run.prop == "C18") { fprintf(stderr, "mon_mtbdd: C18 needs the guarded hooks (-DLIBVATA_VERIF)\n"); return 2; }
#endif
	uint64_t idx;
	while (run.next(idx)) { vh::Rng g = run.rng(idx); fn(idx, g); }
#ifdef LIBVATA_VERIF
	for (int i = 0; i < VATA::Verif::NUM_COUNTERS; ++i) if (VATA::Verif::Counters()[i]) run.count(std::string("reach:") + VATA::Verif::CounterName(i), static_cast<long>(VATA::Verif::Counters()[i]));
#endif
	return run.finish();
}
