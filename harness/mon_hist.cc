// History monitors for explicit automata.
//   C11: value semantics of ExplicitTreeAut and ExplicitFiniteAut — a pool of live handles that
//        structurally share rule storage; after EVERY step every live handle is re-read and
//        compared with its shadow. Plus the determinism clause: an operation repeated after
//        unrelated activity in the same process gives the same outcome.
//   C12: the rule container and its read-only views against a shadow std::set of rules.
#include "vata_util.hh"
#include "gen.hh"
#include <memory>
#ifdef LIBVATA_VERIF
#  include "util/verif_hooks.hh"
#endif

using namespace vu;
static vh::Run* R;

// ----------------------------------------------------------------- reading a tree automaton
// Reads every view of the automaton and compares with the shadow. `universe` bounds the
// states queried through operator[].
static bool readEq(Aut& a, const RTA& s, St universe, vh::Rng* g, std::string& why, bool fullViews)
{
	std::multiset<RRule> got;
	for (auto t : a) { RRule r; r.sym = static_cast<int>(t.GetSymbol()); r.par = t.GetParent(); for (auto c : t.GetChildren()) r.ch.push_back(c); got.insert(r); }
	if (got.size() != s.rules.size()) { why = "iteration yields " + vh::str(got.size()) + " rules, expected " + vh::str(s.rules.size()); return false; }
	{ auto it = s.rules.begin(); for (auto& x : got) { if (!(x == *it)) { why = "iteration yields a rule that was not added (or one twice)"; return false; } ++it; } }
	std::set<St> f(a.GetFinalStates().begin(), a.GetFinalStates().end());
	if (f != s.fin) { why = "final states differ"; return false; }
	if (!fullViews) return true;
	{	// the iterators' == and != agree with each other and with the position (explicit loops use ==)
		auto b = a.begin(), e = a.end(); size_t n = 0;
		if ((b == e) != s.rules.empty() || (b != e) == s.rules.empty()) { why = "iterator begin()==end() wrong"; return false; }
		for (auto it = a.begin(); !(it == e); ++it) { if (!(it != e)) { why = "iterator == and != disagree"; return false; } if (++n > s.rules.size() + 1) break; }
		if (n != s.rules.size()) { why = "iteration with == yields " + vh::str(n) + " rules, expected " + vh::str(s.rules.size()); return false; }
		auto at = a.GetAcceptTrans(); size_t na = 0, expA = 0; for (auto& r : s.rules) if (s.fin.count(r.par)) ++expA;
		auto ae = at.end(); for (auto it = at.begin(); !(it == ae); ++it) { if (!(it != ae)) { why = "accept iterator == and != disagree"; return false; } if (++na > expA + 1) break; }
		if (na != expA) { why = "GetAcceptTrans iteration with == yields " + vh::str(na) + " rules, expected " + vh::str(expA); return false; }
		for (St q = 0; q < universe; ++q)
		{
			auto acc = a[q]; size_t nd = 0, expD = 0; for (auto& r : s.rules) if (r.par == q) ++expD;
			auto de = acc.end(); for (auto it = acc.begin(); !(it == de); ++it) { if (!(it != de)) { why = "down iterator == and != disagree"; return false; } if (++nd > expD + 1) break; }
			if (nd != expD) { why = "operator[] iteration with == yields " + vh::str(nd) + " rules for state " + vh::str(q); return false; }
		}
	}
	for (St q : s.fin) if (!a.IsStateFinal(q)) { why = "IsStateFinal false for a final state"; return false; }
	for (auto& r : s.rules)
	{
		std::vector<size_t> ch(r.ch.begin(), r.ch.end());
		if (!a.ContainsTransition(ch, r.sym, r.par)) { why = "ContainsTransition false for an added rule"; return false; }
		if (!a.ContainsTransition(Aut::Transition(r.par, r.sym, ch))) { why = "ContainsTransition(Transition) false for an added rule"; return false; }
	}
	if (g)
	{	// sampled absent rules: same parent other symbol, same symbol other arity, permuted children, other parent
		for (auto& r : s.rules)
		{
			if (!g->chance(1, 2)) continue;
			RRule x = r; int k = static_cast<int>(g->below(4));
			if (k == 0) x.sym = r.sym + 1 + static_cast<int>(g->below(3));
			else if (k == 1) { if (x.ch.empty()) x.ch.push_back(g->below(universe)); else x.ch.pop_back(); }
			else if (k == 2) { if (x.ch.size() >= 2) std::swap(x.ch[0], x.ch[1]); else x.par = g->below(universe + 2); }
			else x.par = g->below(universe + 2);
			std::vector<size_t> ch(x.ch.begin(), x.ch.end());
			bool exp = s.rules.count(x) != 0;
			if (a.ContainsTransition(ch, x.sym, x.par) != exp) { why = std::string("ContainsTransition ") + (exp ? "false for a present" : "true for an absent") + " rule"; return false; }
		}
	}
	{
		std::multiset<RRule> acc, ref;
		auto at = a.GetAcceptTrans();
		for (auto t : at) { RRule r; r.sym = static_cast<int>(t.GetSymbol()); r.par = t.GetParent(); for (auto c : t.GetChildren()) r.ch.push_back(c); acc.insert(r); }
		for (auto& r : s.rules) if (s.fin.count(r.par)) ref.insert(r);
		if (acc != ref) { why = "GetAcceptTrans yields " + vh::str(acc.size()) + " rules, expected " + vh::str(ref.size()); return false; }
	}
	for (St q = 0; q < universe; ++q)
	{
		std::multiset<RRule> d, ref; auto acc = a[q];   // keep the accessor alive while iterating
		for (auto t : acc) { RRule r; r.sym = static_cast<int>(t.GetSymbol()); r.par = t.GetParent(); for (auto c : t.GetChildren()) r.ch.push_back(c); d.insert(r); }
		for (auto& r : s.rules) if (r.par == q) ref.insert(r);
		if (d != ref) { why = "operator[](" + vh::str(q) + ") yields " + vh::str(d.size()) + " rules, expected " + vh::str(ref.size()); return false; }
		if (acc.empty() != ref.empty()) { why = "DownAccessor::empty() wrong for state " + vh::str(q); return false; }
	}
	{
		std::set<St> us = s.states(); auto gu = a.GetUsedStates();
		if (std::set<St>(gu.begin(), gu.end()) != us) { why = "GetUsedStates differs"; return false; }
	}
	if (a.AreTransitionsEmpty() != s.rules.empty()) { why = "AreTransitionsEmpty wrong"; return false; }
	return true;
}

static RTA snapshot(const Aut& a) { return readExpl(a, nullptr); }

// ======================================================================= C12
static void caseC12(uint64_t, vh::Rng& g)
{
	const St U = static_cast<St>(g.range(3, 6));
	std::unique_ptr<Aut> a(new Aut); RTA s; std::string trace; int L = g.range(20, 60);
	std::unique_ptr<Aut> copy; RTA copyShadow;
	std::unique_ptr<Aut> other; RTA otherShadow;   // a separately built automaton that `a` may be ASSIGNED (it stays alive)
	// one look-up a[q] compared with the shadow (the full views index every state in ascending order; what an
	// implementation remembers of its last look-up then never varies — seeded change m107)
	auto probe = [&](Aut& x, const RTA& sh, const char* who) -> bool {
		St q = g.below(U + 1); std::multiset<RRule> d, ref; auto acc = x[q];
		for (auto t : acc) { RRule r; r.sym = static_cast<int>(t.GetSymbol()); r.par = t.GetParent(); for (auto c : t.GetChildren()) r.ch.push_back(c); d.insert(r); }
		for (auto& r : sh.rules) if (r.par == q) ref.insert(r);
		R->count("single-index-probes");
		if (d != ref) { R->violation(std::string("C12/") + who + "operator[]/content", "operator[](" + vh::str(q) + ") yields " + vh::str(d.size()) + " rules, expected " + vh::str(ref.size()) + " (single look-up) after: " + trace); return false; }
		return true; };
	auto mkRule = [&]() {
		RRule r; r.sym = static_cast<int>(g.below(4)); size_t ar = r.sym == 0 ? 0 : (r.sym == 1 ? 1 : 2);
		if (g.chance(1, 8)) ar = g.below(4);          // one symbol number with several arities
		for (size_t i = 0; i < ar; ++i) r.ch.push_back(g.below(U)); r.par = g.below(U); return r; };
	bool interesting = false;
	for (int st = 0; st < L; ++st)
	{
		int op = static_cast<int>(g.below(18)); R->count("steps");
		if (op < 7)
		{
			RRule r = mkRule();
			if (!s.rules.empty() && g.chance(1, 5)) { auto it = s.rules.begin(); std::advance(it, g.below(s.rules.size())); r = *it; R->count("repeated-rule"); }
			std::vector<size_t> ch(r.ch.begin(), r.ch.end());
			if (g.chance(1, 3)) a->AddTransition(Aut::Transition(r.par, r.sym, ch)); else a->AddTransition(ch, r.sym, r.par);
			s.rules.insert(r); trace += "add " + vh::str(r.sym) + "(" + vh::str(r.ch.size()) + ")->" + vh::str(r.par) + ";";
			if (r.ch.empty()) R->count("nullary-rule");
		}
		else if (op < 9) { St q = g.below(U + 1); a->SetStateFinal(q); s.fin.insert(q); trace += "final " + vh::str(q) + ";"; }
		else if (op == 9) { std::set<size_t> qs; int n = g.range(0, 3); for (int i = 0; i < n; ++i) qs.insert(g.below(U + 1)); a->SetStatesFinal(qs); s.fin.insert(qs.begin(), qs.end()); trace += "finals;"; }
		else if (op == 10) { a->EraseFinalStates(); s.fin.clear(); trace += "erasefinal;"; R->count("erase-final-states"); }
		else if (op == 11 && g.chance(1, 2)) { a->Clear(); s = RTA(); trace += "clear;"; R->count("clear"); }
		else if (op == 12) { copy.reset(new Aut(*a)); copyShadow = s; trace += "copy;"; R->count("view-on-copy"); }
		else if (op == 13 && copy) { std::swap(a, copy); std::swap(s, copyShadow); trace += "swap-with-copy;"; }
		else if (op == 14) { Aut tmp(*a); *a = tmp; trace += "self-roundtrip;"; }
		else if (op == 15)
		{	// copy, then at once one mutating call on either side — no read in between (reads may un-share storage)
			copy.reset(new Aut(*a)); copyShadow = s; trace += "copy;"; R->count("view-on-copy"); R->count("copy-then-mutate");
			bool onCopy = g.chance(1, 3); Aut& t = onCopy ? *copy : *a; RTA& ts = onCopy ? copyShadow : s; const char* side = onCopy ? "(copy)" : "";
			switch (g.below(4))
			{
				case 0: t.Clear(); ts = RTA(); trace += std::string("clear") + side + ";"; R->count("clear"); break;
				case 1: t.EraseFinalStates(); ts.fin.clear(); trace += std::string("erasefinal") + side + ";"; R->count("erase-final-states"); break;
				case 2: { St q = g.below(U + 1); t.SetStateFinal(q); ts.fin.insert(q); trace += std::string("final") + side + " " + vh::str(q) + ";"; break; }
				default: { RRule r = mkRule(); std::vector<size_t> ch(r.ch.begin(), r.ch.end()); t.AddTransition(ch, r.sym, r.par); ts.rules.insert(r); trace += std::string("add") + side + " " + vh::str(r.sym) + "(" + vh::str(r.ch.size()) + ")->" + vh::str(r.par) + ";"; break; }
			}
		}
		else if (op >= 16)
		{	// the automaton is assigned another, separately built one (assignment is a mutating call too: everything the
			// object remembers about its earlier rules must go); the source stays alive, the copy keeps the old storage
			other.reset(new Aut); otherShadow = RTA(); int n = g.range(1, 5);
			for (int i = 0; i < n; ++i) { RRule r = mkRule(); std::vector<size_t> ch(r.ch.begin(), r.ch.end()); other->AddTransition(ch, r.sym, r.par); otherShadow.rules.insert(r); }
			if (g.chance(1, 3)) { St q = g.below(U + 1); other->SetStateFinal(q); otherShadow.fin.insert(q); }
			*a = *other; s = otherShadow; trace += "assign-other(" + vh::str(n) + " rules);"; R->count("assigned-another-automaton");
		}
		else continue;
		if (st + 1 < L && g.chance(1, 4))
		{	// several mutating calls between two full reads; sometimes one single look-up in between
			R->count("steps-without-read");
			if (g.chance(1, 2)) { R->phase("single look-up"); if (!probe(*a, s, "")) return; if (copy && g.chance(1, 2) && !probe(*copy, copyShadow, "copy-view/")) return; }
			continue;
		}
		R->desc(trace); R->phase("read views");
		std::string why;
		if (!readEq(*a, s, U + 1, &g, why, true)) { R->violation("C12/" + why.substr(0, why.find(' ')) + "/" + (why.find("yields") != std::string::npos ? "content" : "answer"), why + " after: " + trace); return; }
		if (copy && !readEq(*copy, copyShadow, U + 1, nullptr, why, true)) { R->violation("C12/copy-view/" + why.substr(0, why.find(' ')), why + " (view on a copy) after: " + trace); return; }
		if (g.chance(1, 2)) { R->phase("single look-up"); if (!probe(*a, s, "")) return; }
		if (s.rules.size() >= 3 && !s.fin.empty()) interesting = true;
	}
	if (interesting) { R->nontrivial(vh::fnv(trace)); if (R->wantSample()) R->sample(trace); }
}

// ======================================================================= C11 (tree automata)
struct H { std::unique_ptr<Aut> a; RTA s; int family; };

static void caseC11tree(vh::Rng& g)
{
	std::vector<H> pool; std::string trace; int L = g.range(30, static_cast<int>(R->param("L", 120))); int nextFamily = 0;
	const St U = 5; std::vector<size_t> focus; bool interesting = false;
	auto pickIdx = [&]() -> size_t {
		// relatedness bias: prefer the handle created last and the ones it was derived from
		while (!focus.empty() && focus.back() >= pool.size()) focus.pop_back();
		if (!focus.empty() && g.chance(2, 3)) { size_t f = focus[g.below(focus.size())]; if (f < pool.size()) return f; }
		return g.below(pool.size()); };
	auto born = [&](Aut&& x, int family, std::initializer_list<size_t> parents, const char* what) {
		H h; h.a.reset(new Aut(std::move(x))); h.s = snapshot(*h.a); h.family = family; pool.push_back(std::move(h));
		focus.assign(parents.begin(), parents.end()); focus.push_back(pool.size() - 1); trace += what; trace += ";"; };
	auto mkRule = [&]() { RRule r; r.sym = static_cast<int>(g.below(3)); size_t ar = static_cast<size_t>(r.sym); for (size_t i = 0; i < ar; ++i) r.ch.push_back(g.below(U)); r.par = g.below(U); return r; };
	for (int st = 0; st < L; ++st)
	{
		R->count("steps");
		int op = static_cast<int>(g.below(24));
		if (pool.empty() || (op == 0 && pool.size() < 10)) { H h; h.a.reset(new Aut); h.family = nextFamily++; pool.push_back(std::move(h)); focus = {pool.size() - 1}; trace += "new;"; }
		else
		{
			size_t i = pickIdx(), j = pickIdx(); bool room = pool.size() < 10;
			R->phase(("op " + vh::str(op)).c_str());
			try {
			switch (op)
			{
				case 1: case 2: case 3: case 4:
				{
					RRule r = mkRule();
					if (!pool[i].s.rules.empty() && g.chance(1, 2))
					{	// aim at storage that already exists: same parent, half of the time the same symbol too
						auto it = pool[i].s.rules.begin(); std::advance(it, g.below(pool[i].s.rules.size()));
						r.par = it->par; if (g.chance(1, 2)) { r.sym = it->sym; r.ch.clear(); for (size_t k = 0; k < it->ch.size(); ++k) r.ch.push_back(g.below(U)); }
					}
					bool relative = false; for (size_t k = 0; k < pool.size(); ++k) if (k != i && pool[k].family == pool[i].family) relative = true;
					if (relative)
					{
						bool parentKnown = false, symKnown = false;
						for (auto& x : pool[i].s.rules) if (x.par == r.par) { parentKnown = true; if (x.sym == r.sym) symKnown = true; }
						R->count(!parentKnown ? "mutate-shared:new-parent" : (!symKnown ? "mutate-shared:existing-parent-new-symbol" : "mutate-shared:existing-parent-and-symbol"));
						interesting = true;
					}
					std::vector<size_t> ch(r.ch.begin(), r.ch.end()); pool[i].a->AddTransition(ch, r.sym, r.par); pool[i].s.rules.insert(r); trace += "add" + vh::str(i) + ";"; break;
				}
				case 5: { St q = g.below(U); pool[i].a->SetStateFinal(q); pool[i].s.fin.insert(q); trace += "fin" + vh::str(i) + ";"; break; }
				case 6: if (room) { H h; h.a.reset(new Aut(*pool[i].a)); h.s = pool[i].s; h.family = pool[i].family; pool.push_back(std::move(h)); focus = {i, pool.size() - 1}; trace += "copy" + vh::str(i) + ";"; } break;
				case 7: { *pool[i].a = *pool[j].a; pool[i].s = pool[j].s; pool[i].family = pool[j].family; focus = {i, j}; trace += "assign" + vh::str(i) + "<-" + vh::str(j) + ";"; break; }
				case 8: { int k = static_cast<int>(g.below(4)); if (k == 0) { pool[i].a->Clear(); pool[i].s = RTA(); trace += "clear" + vh::str(i) + ";"; } else if (k == 1) { pool[i].a->EraseFinalStates(); pool[i].s.fin.clear(); trace += "erasefin" + vh::str(i) + ";"; } break; }
				case 9: { pool.erase(pool.begin() + i); focus.clear(); trace += "del" + vh::str(i) + ";"; break; }
				case 10: if (room) born(pool[i].a->RemoveUnreachableStates(), pool[i].family, {i}, "unreach"); break;
				case 11: if (room) born(pool[i].a->RemoveUselessStates(), pool[i].family, {i}, "useless"); break;
				case 12: if (room) born(Aut::Union(*pool[i].a, *pool[j].a), nextFamily++, {i, j}, "union"); break;
				case 13: if (room)
				{
					std::set<St> si = pool[i].s.states(), sj = pool[j].s.states(); bool disj = i != j; for (St q : si) if (sj.count(q)) disj = false;
					if (disj) born(Aut::UnionDisjointStates(*pool[i].a, *pool[j].a), pool[i].family, {i, j}, "uniondisj");
					else
					{	// make a disjoint partner first (renumbered copy), then unite
						AutBase::StateToStateMap m; size_t c = 100; AutBase::StateToStateTranslWeak tr(m, [&c](const size_t&) { return c++; });
						Aut sh = pool[j].a->ReindexStates(tr);
						born(Aut::UnionDisjointStates(*pool[i].a, sh), pool[i].family, {i, j}, "uniondisj(reindexed)");
					}
				} break;
				case 14: if (room) { H h; h.a.reset(new Aut(std::move(*pool[i].a))); h.s = pool[i].s; h.family = pool[i].family; pool.erase(pool.begin() + i); pool.push_back(std::move(h)); focus = {pool.size() - 1}; trace += "move-construct" + vh::str(i) + ";"; } break;
				case 15: if (i != j) { *pool[i].a = std::move(*pool[j].a); pool[i].s = pool[j].s; pool[i].family = pool[j].family; pool.erase(pool.begin() + j); focus.clear(); trace += "move-assign" + vh::str(i) + "<-" + vh::str(j) + ";"; } break;
				case 16: if (room) { bool ct = g.chance(1, 2), cf = g.chance(1, 2); H h; h.a.reset(new Aut(*pool[i].a, ct, cf)); if (ct) h.s.rules = pool[i].s.rules; if (cf) h.s.fin = pool[i].s.fin; h.family = pool[i].family; pool.push_back(std::move(h)); focus = {i, pool.size() - 1}; trace += "selective-copy" + vh::str(i) + ";"; } break;
				case 17: if (room) born(pool[i].a->Reduce(), pool[i].family, {i}, "reduce"); break;
				case 18: if (room) born(pool[i].a->GetCandidateTree(), pool[i].family, {i}, "candidate"); break;
				case 19: if (room) { AutBase::StateToStateMap m; size_t c = g.chance(1, 2) ? 0 : 50; AutBase::StateToStateTranslWeak tr(m, [&c](const size_t&) { return c++; }); born(pool[i].a->ReindexStates(tr), nextFamily++, {i}, "reindex"); } break;
				case 20: if (room) { AutBase::StateToStateMap m; for (St q : pool[i].s.states()) m[q] = g.below(3); born(pool[i].a->CollapseStates(m), nextFamily++, {i}, "collapse"); } break;
				case 21: if (room) born(Aut::Intersection(*pool[i].a, *pool[j].a), nextFamily++, {i, j}, "isect"); break;
				case 22: { *pool[i].a = *pool[i].a; trace += "self-assign" + vh::str(i) + ";"; break; }
				default: break;
			}
			} catch (std::exception& e) { R->violation("C11/tree/exception", std::string(e.what()) + " after: " + trace); return; }
		}
		if (!pool.empty() && g.chance(1, 5))
		{	// results depend only on the operand's content: the handle with its history against an automaton
			// built afresh with the same rules and final states
			size_t k = pickIdx(); const RTA& sh = pool[k].s; R->count("history-vs-fresh-comparisons");
			Aut F; { std::vector<RRule> rs(sh.rules.begin(), sh.rules.end()); std::shuffle(rs.begin(), rs.end(), g); for (auto& r : rs) { std::vector<size_t> ch(r.ch.begin(), r.ch.end()); F.AddTransition(ch, r.sym, r.par); } for (St f : sh.fin) F.SetStateFinal(f); }
			Aut& Hh = *pool[k].a; std::string key;
			try
			{
				R->phase("history-vs-fresh IsLangEmpty"); if (Hh.IsLangEmpty() != F.IsLangEmpty()) key = "emptiness";
				R->phase("history-vs-fresh RemoveUselessStates"); if (key.empty() && snapshot(Hh.RemoveUselessStates()) != snapshot(F.RemoveUselessStates())) key = "remove-useless";
				R->phase("history-vs-fresh RemoveUnreachableStates"); if (key.empty() && snapshot(Hh.RemoveUnreachableStates()) != snapshot(F.RemoveUnreachableStates())) key = "remove-unreachable";
				R->phase("history-vs-fresh Reduce");
				if (key.empty())
				{
					RTA r1 = snapshot(Hh.Reduce()), r2 = snapshot(F.Reduce());
					if (r1.states().size() != r2.states().size() || r1.rules.size() != r2.rules.size()) key = "reduce-size";
					else { Alpha ia; if (rm::inducedAlpha({&r1, &r2, &sh}, ia) && (rm::cmpLang(r1, r2, ia) > 0 || rm::cmpLang(r1, sh, ia) > 0)) key = "reduce-language"; }
				}
				R->phase("history-vs-fresh GetCandidateTree"); if (key.empty() && Hh.GetCandidateTree().IsLangEmpty() != F.GetCandidateTree().IsLangEmpty()) key = "candidate-emptiness";
				R->phase("history-vs-fresh CheckInclusion"); if (key.empty() && (!Aut::CheckInclusion(Hh, F) || !Aut::CheckInclusion(F, Hh))) key = "inclusion-with-fresh-copy";
			}
			catch (std::exception& e) { key = std::string("exception:") + e.what(); }
			if (!key.empty()) { R->violation("C11/tree/history-dependent/" + key.substr(0, key.find(':')), "handle " + vh::str(k) + " with its history and a freshly built automaton with the same content give different outcomes (" + key + ") after: " + trace); return; }
		}
		R->desc(trace); R->phase("re-read all handles");
		for (size_t k = 0; k < pool.size(); ++k)
		{
			std::string why;
			if (!readEq(*pool[k].a, pool[k].s, U, nullptr, why, (st % 4) == 0))
			{
				std::string last = trace.substr(0, trace.size() - 1); size_t p = last.rfind(';'); last = last.substr(p == std::string::npos ? 0 : p + 1);
				std::string opname = last.substr(0, last.find_first_of("0123456789(<"));
				R->violation("C11/tree/handle-changed-by/" + opname, "handle " + vh::str(k) + ": " + why + " after: " + trace); return;
			}
		}
	}
	if (interesting) { R->nontrivial(vh::fnv(trace)); if (R->wantSample()) R->sample("tree history: " + trace); }
}

// ======================================================================= C11 (finite automata)
struct HF { std::unique_ptr<FA> a; RFA s; int family; };
static std::vector<size_t>& faSyms() { static std::vector<size_t> v; return v; }
static RFA readFA(const FA& x)
{	// state names in a dump without dictionary are the state numbers; symbols a<i>
	auto d = parser().ParseString(x.DumpToString(serializer())); RFA s;
	for (auto& f : d.finalStates) s.fin.insert(std::stoul(f));
	for (auto& t : d.transitions) { if (t.first.empty()) s.start.insert(std::stoul(t.third)); else s.tr.insert(std::make_tuple(static_cast<St>(std::stoul(t.first[0])), atoi(t.second.c_str() + 1), static_cast<St>(std::stoul(t.third)))); }
	return s;
}

static void caseC11fa(vh::Rng& g)
{
	if (faSyms().empty()) { FA tmp; auto tr = tmp.GetAlphabet()->GetSymbolTransl(); for (int i = 0; i < 3; ++i) faSyms().push_back((*tr)("a" + std::to_string(i))); faSyms().push_back((*tr)("x")); }
	std::vector<HF> pool; std::string trace; int L = g.range(20, 70); int nextFamily = 0; std::vector<size_t> focus; bool interesting = false;
	auto pickIdx = [&]() -> size_t { while (!focus.empty() && focus.back() >= pool.size()) focus.pop_back(); if (!focus.empty() && g.chance(2, 3)) { size_t f = focus[g.below(focus.size())]; if (f < pool.size()) return f; } return g.below(pool.size()); };
	auto born = [&](FA&& x, int family, std::initializer_list<size_t> parents, const char* what) { HF h; h.a.reset(new FA(std::move(x))); h.s = readFA(*h.a); h.family = family; pool.push_back(std::move(h)); focus.assign(parents.begin(), parents.end()); focus.push_back(pool.size() - 1); trace += what; trace += ";"; };
	for (int st = 0; st < L; ++st)
	{
		R->count("steps"); int op = static_cast<int>(g.below(18));
		if (pool.empty() || (op == 0 && pool.size() < 8)) { HF h; h.a.reset(new FA); h.family = nextFamily++; pool.push_back(std::move(h)); focus = {pool.size() - 1}; trace += "new;"; }
		else
		{
			size_t i = pickIdx(), j = pickIdx(); bool room = pool.size() < 8;
			R->phase(("fa op " + vh::str(op)).c_str());
			try {
			switch (op)
			{
				case 1: case 2: case 3:
				{
					St l = g.below(4), r = g.below(4); int sy = static_cast<int>(g.below(3));
					for (size_t k = 0; k < pool.size(); ++k) if (k != i && pool[k].family == pool[i].family) { R->count("fa-mutate-shared"); interesting = true; break; }
					pool[i].a->AddTransition(l, faSyms()[sy], r); pool[i].s.tr.insert(std::make_tuple(l, sy, r)); trace += "add" + vh::str(i) + ";"; break;
				}
				case 4: { St q = g.below(4); pool[i].a->SetStateFinal(q); pool[i].s.fin.insert(q); trace += "fin" + vh::str(i) + ";"; break; }
				case 5: { St q = g.below(4); pool[i].a->SetStateStart(q, faSyms()[3]); pool[i].s.start.insert(q); trace += "start" + vh::str(i) + ";"; break; }
				case 6: if (room) { HF h; h.a.reset(new FA(*pool[i].a)); h.s = pool[i].s; h.family = pool[i].family; pool.push_back(std::move(h)); focus = {i, pool.size() - 1}; trace += "copy" + vh::str(i) + ";"; } break;
				case 7: { *pool[i].a = *pool[j].a; pool[i].s = pool[j].s; pool[i].family = pool[j].family; focus = {i, j}; trace += "assign" + vh::str(i) + "<-" + vh::str(j) + ";"; break; }
				case 8: { pool.erase(pool.begin() + i); focus.clear(); trace += "del" + vh::str(i) + ";"; break; }
				case 9: if (room) born(pool[i].a->RemoveUnreachableStates(), pool[i].family, {i}, "unreach"); break;
				case 10: if (room) born(FA::Union(*pool[i].a, *pool[j].a), nextFamily++, {i, j}, "union"); break;
				case 11: if (room) born(pool[i].a->GetCandidateTree(), pool[i].family, {i}, "candidate"); break;
				case 12: if (room) born(pool[i].a->RemoveUselessStates(), pool[i].family, {i}, "useless"); break;
				case 13: if (room) born(pool[i].a->Reverse(), nextFamily++, {i}, "reverse"); break;
				case 14: if (room) born(FA::Intersection(*pool[i].a, *pool[j].a), nextFamily++, {i, j}, "isect"); break;
				case 15: if (room) { HF h; h.a.reset(new FA(std::move(*pool[i].a))); h.s = pool[i].s; h.family = pool[i].family; pool.erase(pool.begin() + i); pool.push_back(std::move(h)); focus = {pool.size() - 1}; trace += "move-construct" + vh::str(i) + ";"; } break;
				case 16: if (i != j) { *pool[i].a = std::move(*pool[j].a); pool[i].s = pool[j].s; pool[i].family = pool[j].family; pool.erase(pool.begin() + j); focus.clear(); trace += "move-assign;"; } break;
				default: break;
			}
			} catch (std::exception& e) { R->violation("C11/fa/exception", std::string(e.what()) + " after: " + trace); return; }
		}
		if (!pool.empty() && g.chance(1, 5))
		{	// the handle with its history against an automaton built afresh with the same content
			size_t k = pickIdx(); const RFA& sh = pool[k].s; R->count("fa-history-vs-fresh-comparisons");
			FA F; for (auto& t : sh.tr) F.AddTransition(std::get<0>(t), faSyms()[std::get<1>(t)], std::get<2>(t)); for (St f : sh.fin) F.SetStateFinal(f); for (St q : sh.start) F.SetStateStart(q, faSyms()[3]);
			FA& Hh = *pool[k].a; std::string key;
			auto sameLang = [&](const FA& x, const FA& y) { RFA a = vu::faObserve(x), b = vu::faObserve(y); rm::JointW K = rm::jointWord({&a, &b}, 3); if (K.capped) return true; for (auto& m : K.reach) if (K.acc(m, 0) != K.acc(m, 1)) return false; return true; };
			try
			{
				R->phase("fa history-vs-fresh Union"); if (!sameLang(FA::Union(Hh, Hh), FA::Union(F, F))) key = "union";
				R->phase("fa history-vs-fresh Intersection"); if (key.empty() && !sameLang(FA::Intersection(Hh, F), FA::Intersection(F, F))) key = "intersection";
				R->phase("fa history-vs-fresh Reverse"); if (key.empty() && !sameLang(Hh.Reverse(), F.Reverse())) key = "reverse";
				R->phase("fa history-vs-fresh RemoveUselessStates"); if (key.empty() && !sameLang(Hh.RemoveUselessStates(), F.RemoveUselessStates())) key = "remove-useless";
				R->phase("fa history-vs-fresh CheckInclusion"); if (key.empty() && (!FA::CheckInclusion(Hh, F) || !FA::CheckInclusion(F, Hh))) key = "inclusion-with-fresh-copy";
			}
			catch (std::exception& e) { key = std::string("exception:") + e.what(); }
			if (!key.empty()) { R->violation("C11/fa/history-dependent/" + key.substr(0, key.find(':')), "handle " + vh::str(k) + " with its history and a freshly built NFA with the same content give different outcomes (" + key + ") after: " + trace); return; }
		}
		R->desc(trace); R->phase("re-read all FA handles");
		for (size_t k = 0; k < pool.size(); ++k)
		{
			RFA now = readFA(*pool[k].a);
			if (!(now == pool[k].s))
			{
				std::string last = trace.substr(0, trace.size() - 1); size_t p = last.rfind(';'); last = last.substr(p == std::string::npos ? 0 : p + 1);
				std::string opname = last.substr(0, last.find_first_of("0123456789(<"));
				R->violation("C11/fa/handle-changed-by/" + opname, "handle " + vh::str(k) + " reads " + canon(now) + " expected " + canon(pool[k].s) + " after: " + trace); return;
			}
		}
	}
	if (interesting) { R->nontrivial(vh::fnv("fa" + trace)); if (R->wantSample()) R->sample("NFA history: " + trace); }
}

// ======================================================================= C11 (determinism)
// The outcome of an operation depends only on operands and parameters: observe, make noise,
// observe again (on the same objects and on freshly built equal ones).
struct Observation
{
	std::vector<int> verdicts; bool emptyA = false; size_t unreachS = 0, unreachR = 0, uselessS = 0, uselessR = 0, reduceS = 0, reduceR = 0;
	RTA unreach, useless, reduce, uni, isect, compl_; std::string loadedDump;
	bool scalarEq(const Observation& o) const { return verdicts == o.verdicts && emptyA == o.emptyA && unreachS == o.unreachS && unreachR == o.unreachR && uselessS == o.uselessS && uselessR == o.uselessR && reduceS == o.reduceS && reduceR == o.reduceR; }
};

static bool inclSel(const Aut& A, const Aut& B, bool down, bool rec, bool opt, bool sim)
{
	Aut sm = A, bg = B; InclParam ip; ip.SetAlgorithm(InclParam::e_algorithm::antichains);
	ip.SetDirection(down ? InclParam::e_direction::downward : InclParam::e_direction::upward); ip.SetUseRecursion(rec); ip.SetUseDownwardCacheImpl(opt); ip.SetUseSimulation(sim);
	AutBase::StateDiscontBinaryRelation rel;
	if (sim)
	{
		AutBase::StateType n = AutBase::SanitizeAutsForInclusion(sm, bg); Aut u = Aut::UnionDisjointStates(sm, bg);
		SimParam sp; sp.SetRelation(down ? SimParam::e_sim_relation::TA_DOWNWARD : SimParam::e_sim_relation::TA_UPWARD); sp.SetNumStates(n);
		rel = u.ComputeSimulation(sp); ip.SetSimulation(&rel);
	}
	return Aut::CheckInclusion(sm, bg, ip);
}

static Observation observeOps(const Aut& A, const Aut& B, CaseAlphabet& ca, bool withCompl, bool light, bool heavy)
{
	Observation o;
	static const bool S[8][4] = {{0,0,0,0},{0,0,0,1},{1,0,0,0},{1,0,0,1},{1,1,0,0},{1,1,0,1},{1,1,1,0},{1,1,1,1}};
	// downward selections have a heavy-tailed running time: without simulation only on light pairs, none on heavy ones
	for (auto& s : S) { if (s[0] && ((!s[3] && !light) || heavy)) { o.verdicts.push_back(-1); continue; } o.verdicts.push_back(inclSel(A, B, s[0], s[1], s[2], s[3]) ? 1 : 0); }
	o.emptyA = A.IsLangEmpty();
	o.unreach = readExpl(A.RemoveUnreachableStates(), &ca); o.unreachS = o.unreach.states().size(); o.unreachR = o.unreach.rules.size();
	o.useless = readExpl(A.RemoveUselessStates(), &ca); o.uselessS = o.useless.states().size(); o.uselessR = o.useless.rules.size();
	o.reduce = readExpl(A.Reduce(), &ca); o.reduceS = o.reduce.states().size(); o.reduceR = o.reduce.rules.size();
	o.uni = readExpl(Aut::Union(A, B), &ca); o.isect = readExpl(Aut::Intersection(A, B), &ca);
	if (withCompl) o.compl_ = readExpl(A.Complement(), &ca);
	{	// what the loader makes of A's text, under the names of the text (also exercises the parser's number conversions)
		Alpha al; al.rank.assign(ca.num.size(), -1); RTA ra = readExpl(A, &ca); bool ok = true; for (auto& r : ra.rules) { if (r.sym < 0 || r.sym >= static_cast<int>(al.rank.size())) { ok = false; break; } al.rank[r.sym] = static_cast<int>(r.ch.size()); }
		if (ok) { Aut z; AutBase::StateDict sd; z.LoadFromString(parser(), rm::toTimbuk(ra, al), sd); o.loadedDump = z.DumpToString(serializer(), sd); }
	}
	return o;
}

static void noise(vh::Rng& g)
{	// unrelated activity: automata created, mutated, copied, combined, destroyed; symbols registered
	std::vector<std::unique_ptr<Aut>> junk; int n = g.range(20, 120);
	static int symCounter = 0;
	for (int i = 0; i < n; ++i)
	{
		Alpha al = gen::randAlpha(g, 3); CaseAlphabet ca(al);
		if (g.chance(1, 4) && symCounter < 150) { auto tr = ca.alpha->GetSymbolTransl(); (*tr)(Aut::StringRank("noise" + std::to_string(symCounter++), g.below(3))); }
		RTA x = gen::randTA(g, al, gen::numbering(g, g.range(1, 6), static_cast<int>(g.below(3))), g.range(1, 15));
		std::unique_ptr<Aut> a(new Aut(g.chance(1, 3) ? loadText<Aut>(rm::toTimbuk(x, al)) : mkExpl(x, ca)));   // the loader registers symbols process-wide
		int k = static_cast<int>(g.below(6));
		if (k == 0 && !junk.empty()) { Aut u = Aut::Union(*a, *junk[g.below(junk.size())]); (void)u; }
		else if (k == 1) { Aut r = a->RemoveUselessStates(); (void)r; }
		else if (k == 2 && !junk.empty()) { *junk[g.below(junk.size())] = *a; }
		else if (k == 3) { Aut r = a->Reduce(); (void)r; }
		else if (k == 4 && !junk.empty()) { junk.erase(junk.begin() + g.below(junk.size())); }
		if (junk.size() < 12) junk.push_back(std::move(a));
		// calls that FAIL are activity too (whatever a rejected input or a refused argument leaves behind in process-wide
		// tables, streams, translators), and so is work in the other encodings (process-wide MTBDD store, alphabets)
		int f = static_cast<int>(g.below(12));
		try
		{
			if (f == 0) { std::string t = rm::toTimbuk(x, al); static const char* bad[] = {"Ops s0:zero s1:1\n", "Ops s0: s1:\n", "Ops s0:99999999999999999999\n", "Ops\nAutomaton\n", "Ops s0:0\nAutomaton A\nStates q0:x\nFinal States q0:\nTransitions\ns0 -> \n"};
				size_t eol = t.find('\n'); t = std::string(bad[g.below(5)]) + t.substr(eol + 1); R->count("noise:malformed-load"); Aut z; z.LoadFromString(parser(), t); }
			else if (f == 1) { std::string t = rm::toTimbuk(x, al); t.resize(g.below(t.size() + 1)); R->count("noise:truncated-load"); Aut z; z.LoadFromString(parser(), t); ExplicitFiniteAut w; w.LoadFromString(parser(), t); }
			else if (f == 2 && !junk.empty()) { R->count("noise:collapse-with-partial-map"); Aut& victim = *junk[g.below(junk.size())]; Aut::StateToStateMap m; for (auto q : victim.GetUsedStates()) if (g.chance(1, 2)) m[q] = q + 100;   // refused somewhere in the middle of a rule
				Aut c = victim.CollapseStates(m); (void)c; }
			else if (f == 3) { RFA w = gen::randLiveFA(g, 5, 8, 2), v = gen::randLiveFA(g, 4, 6, 2); ExplicitFiniteAut p = loadText<ExplicitFiniteAut>(faToTimbuk(w, 2)), q = loadText<ExplicitFiniteAut>(faToTimbuk(v, 2));
				R->count("noise:nfa-activity"); ExplicitFiniteAut u = ExplicitFiniteAut::Union(p, q), r = p.Reverse(); InclParam ip; ip.SetAlgorithm(InclParam::e_algorithm::antichains); (void)ExplicitFiniteAut::CheckInclusion(p, q, ip); }
			else if (f == 4) { Alpha b2; b2.rank = {0, 0, 1, 2}; RTA y = gen::randProductiveTA(g, b2, gen::numbering(g, g.range(1, 4), 0), g.range(1, 6));
				R->count("noise:bdd-activity"); BDDBottomUpTreeAut p = loadText<BDDBottomUpTreeAut>(rm::toTimbuk(y, b2)); BDDTopDownTreeAut q = p.GetTopDownAut(); BDDBottomUpTreeAut r = p.RemoveUselessStates(); (void)q; (void)r; }
		}
		catch (std::exception&) { R->count("noise:call-failed-with-exception"); }
	}
}

static void caseC11det(vh::Rng& g)
{
	Alpha al; RTA a, b; std::string kind; gen::genPair(g, 5, 9, al, a, b, kind);
	if (a.states().size() > 6 || b.states().size() > 6) { al = gen::randAlpha(g); a = gen::randProductiveTA(g, al, gen::numbering(g, 4, 0), 7); b = gen::randProductiveTA(g, al, gen::numbering(g, 4, 0), 8); }
	R->desc("determinism\n" + rm::toTimbuk(a, al, "A") + rm::toTimbuk(b, al, "B"));
	bool withCompl = a.states().size() <= 4;
	bool light = a.states().size() <= 6 && b.states().size() <= 6 && gen::maxTuples(b) <= 9, heavy = gen::maxTuples(b) > 12;
	try
	{
		CaseAlphabet ca(al); Aut A = mkExpl(a, ca), B = mkExpl(b, ca);
		R->phase("observe 1"); Observation o1 = observeOps(A, B, ca, withCompl, light, heavy);
		R->phase("noise"); noise(g);
		if (g.chance(1, 2))
		{	// the last thing before the second observation is a call the library refuses (partial state map, malformed text)
			R->phase("noise: refused call last"); R->count("noise:refused-call-last");
			try { Alpha al2 = gen::randAlpha(g, 3); CaseAlphabet ca2(al2); RTA x = gen::randProductiveTA(g, al2, gen::numbering(g, g.range(2, 5), 0), g.range(2, 8)); Aut X = mkExpl(x, ca2);
			      if (g.chance(2, 3)) { Aut::StateToStateMap m; for (auto q : X.GetUsedStates()) if (g.chance(1, 2)) m[q] = q + 100; Aut c = X.CollapseStates(m); (void)c; }
			      else { Aut z; z.LoadFromString(parser(), "Ops s0:zero\nAutomaton A\nStates q0\nFinal States q0\nTransitions\ns0 -> q0\n"); } }
			catch (std::exception&) { R->count("noise:call-failed-with-exception"); }
		}
		R->phase("observe 2 (same objects)"); Observation o2 = observeOps(A, B, ca, withCompl, light, heavy);
		// equal operands built afresh, rules inserted in another order
		std::vector<RRule> ra(a.rules.begin(), a.rules.end()), rb(b.rules.begin(), b.rules.end()); std::shuffle(ra.begin(), ra.end(), g); std::shuffle(rb.begin(), rb.end(), g);
		Aut A2 = mkExpl(a, ca, &ra), B2 = mkExpl(b, ca, &rb);
		R->phase("observe 3 (rebuilt operands)"); Observation o3 = observeOps(A2, B2, ca, withCompl, light, heavy);
		R->count("determinism-cases");
		auto cmp = [&](const Observation& x, const Observation& y, const char* what) {
			if (x.verdicts != y.verdicts) { R->violation(std::string("C11/determinism/") + what + "/inclusion-verdict", "verdict vector differs after unrelated activity"); return; }
			if (x.loadedDump != y.loadedDump) { R->violation(std::string("C11/determinism/") + what + "/load-dump", "what loading the operand's text and dumping it gives differs after unrelated activity"); return; }
			if (!x.scalarEq(y)) { R->violation(std::string("C11/determinism/") + what + "/emptiness-or-size", "emptiness verdict or trimming/reduction size differs after unrelated activity"); return; }
			const RTA* xs[] = {&x.unreach, &x.useless, &x.reduce, &x.uni, &x.isect, &x.compl_}; const RTA* ys[] = {&y.unreach, &y.useless, &y.reduce, &y.uni, &y.isect, &y.compl_};
			static const char* nm[] = {"unreach", "useless", "reduce", "union", "isect", "complement"};
			for (int i = 0; i < 6; ++i) { int c = rm::cmpLang(*xs[i], *ys[i], al); if (c > 0) { R->violation(std::string("C11/determinism/") + what + "/" + nm[i] + "-language", "result language differs after unrelated activity"); return; } } };
		cmp(o1, o2, "same-objects"); cmp(o1, o3, "rebuilt-operands");
		if (rm::refEmpty(a, al) == 0 && rm::refEmpty(b, al) == 0) { R->nontrivial(vh::fnv("det" + canon(al) + canon(a) + canon(b))); if (R->wantSample()) R->sample("determinism: " + kind + "\n" + rm::toTimbuk(a, al, "A") + rm::toTimbuk(b, al, "B")); }
	}
	catch (std::exception& e) { R->violation("C11/determinism/exception", e.what()); }
}

static void caseC11(uint64_t idx, vh::Rng& g)
{
	switch (vh::splitmix64(idx * 11 + 5) % 4) { /* not idx % 4: shards take i = k (mod n); every process mixes the three kinds */ case 0: case 1: R->count("tree-histories"); caseC11tree(g); break; case 2: R->count("fa-histories"); caseC11fa(g); break; default: caseC11det(g); break; }
}

int main(int argc, char** argv)
{
	vh::Run run(argc, argv); R = &run;
	void (*fn)(uint64_t, vh::Rng&) = nullptr;
	if (run.prop == "C11") fn = caseC11; else if (run.prop == "C12") fn = caseC12;
	else { fprintf(stderr, "mon_hist: unknown property %s\n", run.prop.c_str()); return 2; }
	uint64_t idx;
	while (run.next(idx)) { vh::Rng g = run.rng(idx); vu::insertionRng() = &g; fn(idx, g); }
#ifdef LIBVATA_VERIF
	for (int i = 0; i < VATA::Verif::NUM_COUNTERS; ++i) if (VATA::Verif::Counters()[i]) run.count(std::string("reach:") + VATA::Verif::CounterName(i), static_cast<long>(VATA::Verif::Counters()[i]));
#endif
	return run.finish();
}
