// libFuzzer target (clang only; thorough tier of C13): coverage-guided byte strings into the
// Timbuk parser and the four loaders. Oracle: returns or throws std::exception; ASan+UBSan fatal.
#include <vata/explicit_tree_aut.hh>
#include <vata/explicit_finite_aut.hh>
#include <vata/bdd_bu_tree_aut.hh>
#include <vata/bdd_td_tree_aut.hh>
#include <vata/parsing/timbuk_parser.hh>
#include <vata/serialization/timbuk_serializer.hh>
#include <set>
using namespace VATA;

template <class A> static void tryLoad(const std::string& s)
{
	static Parsing::TimbukParser p;
	try { A a; a.LoadFromString(p, s); } catch (std::exception&) { }
}

extern "C" int LLVMFuzzerTestOneInput(const uint8_t* d, size_t n)
{
	std::string s(reinterpret_cast<const char*>(d), n);
	static Parsing::TimbukParser p; static std::set<std::string> names; bool parsed = false; size_t fresh = 0;
	try
	{
		auto desc = p.ParseString(s); parsed = true;
		for (auto& t : desc.transitions) if (names.insert(t.second + ":" + std::to_string(t.first.size())).second) ++fresh;
		for (auto& sy : desc.symbols) if (names.insert(sy.first + ":" + std::to_string(sy.second)).second) ++fresh;
	}
	catch (std::exception&) { }
	tryLoad<ExplicitTreeAut>(s); tryLoad<ExplicitFiniteAut>(s);
	// symbolic encodings: 16-bit symbol codes, process-wide alphabet only grows -> bounded vocabulary per process
	if (n < 2000 && (!parsed || names.size() < 20000)) { tryLoad<BDDBottomUpTreeAut>(s); tryLoad<BDDTopDownTreeAut>(s); }
	(void)fresh;
	return 0;
}
