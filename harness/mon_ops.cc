// Differential monitors for operations on explicit tree automata:
//   C02 union / intersection      C03 trimming + emptiness     C05 Reduce
//   C06 Complement                C14 renaming                  C15 witness automaton
// Oracle: the reference model (refmodel.hh). One case = one generated automaton (pair)
// pushed through all operations the property names.
#include "vata_util.hh"
#include "gen.hh"
#include <memory>

using namespace vu;
using gen::numbering;

static vh::Run* R;

static std::string caseText(const Alpha& al, const RTA& a, const RTA* b = nullptr)
{
	std::string s = rm::toTimbuk(a, al, "A"); if (b) s += rm::toTimbuk(*b, al, "B"); return s;
}
static uint64_t caseHash(const Alpha& al, const RTA& a, const RTA* b = nullptr)
{
	std::string s = canon(al) + canon(a); if (b) s += "|" + canon(*b); return vh::fnv(s);
}

// single automaton for the one-operand properties: exhaustive slice first, then random
static gen::Exhaustive& ex2() { static gen::Exhaustive e(2); return e; }
static gen::Exhaustive& ex3() { static gen::Exhaustive e(3); return e; }

// --input FILE: the generated automata are replaced by the ones in the file (the PRNG stream of the
// case is consumed as usual, so the other random choices of the case stay as close as possible)
static bool overrideInput(Alpha& al, RTA& a, RTA* b)
{
	if (R->inputFile.empty()) return false;
	Alpha ial; std::vector<RTA> auts; int n = parseCaseText(slurpFile(R->inputFile), ial, auts);
	if (n < 1) { fprintf(stderr, "cannot parse --input file\n"); exit(2); }
	al = ial; a = auts[0]; if (b) { if (n < 2) { fprintf(stderr, "--input needs two automata\n"); exit(2); } *b = auts[1]; }
	return true;
}

static void genSingleRaw(uint64_t idx, vh::Rng& g, Alpha& al, RTA& a, std::string& kind, int S, int Rn);
static void genSingle(uint64_t idx, vh::Rng& g, Alpha& al, RTA& a, std::string& kind, int S, int Rn)
{
	genSingleRaw(idx, g, al, a, kind, S, Rn);
	if (overrideInput(al, a, nullptr)) kind = "input-file";
}
static void genSingleRaw(uint64_t idx, vh::Rng& g, Alpha& al, RTA& a, std::string& kind, int S, int Rn)
{
	uint64_t nEx = static_cast<uint64_t>(R->param("exhaustive", ex2().size()));
	if (idx < nEx)
	{
		al = gen::sigma0();
		if (nEx > ex2().size()) { kind = "G1-exhaustive3"; a = ex3().get((idx + R->seed * 7919) % ex3().size()); }
		else { kind = "G1-exhaustive2"; a = ex2().get((idx + R->seed * 7919) % ex2().size()); }
		return;
	}
	int k = static_cast<int>(g.below(6));
	al = gen::randAlpha(g, static_cast<int>(R->param("maxrank", 2)));
	int nk = static_cast<int>(g.below(3));
	if (k < 2) { kind = "G2-random"; a = gen::randTA(g, al, numbering(g, g.range(1, S), nk), g.range(0, Rn)); }
	else if (k < 5) { kind = "G2-productive"; a = gen::randProductiveTA(g, al, numbering(g, g.range(1, S), nk), g.range(1, Rn), 2); }
	else
	{	// duplicated sub-automata: simulation-equivalent states, final and non-final
		kind = "G3-duplicated";
		RTA b = gen::randProductiveTA(g, al, numbering(g, g.range(1, std::max(1, S / 2)), 0), g.range(1, Rn / 2 + 1), 1);
		a = gen::unionRM(b, gen::shiftStates(b, 10));
		if (g.chance(1, 2)) a = gen::mutate(g, al, a);
		// connect the copies through a shared parent now and then
		if (g.chance(1, 2) && !a.rules.empty()) { RRule r = *a.rules.begin(); r.par += 10; a.rules.insert(r); }
	}
}

// in-place mutation of a live automaton object (and of its reference): a rule over existing
// states, or a final-state change — the object keeps its identity, storage and history
static void mutateInPlace(vh::Rng& g, const Alpha& al, Aut& A, RTA& a, CaseAlphabet& ca)
{
	std::set<St> ss = a.states(); std::vector<St> st(ss.begin(), ss.end()); if (st.empty()) st.push_back(0);
	int k = static_cast<int>(g.below(6));
	if (k == 5)
	{	// the object is ASSIGNED another automaton (copy- or move-assignment): whatever it remembers of its earlier
		// content (marks, memoised results keyed by the object) must go with the assignment
		bool anyLeaf = false; for (int r : al.rank) if (r == 0) anyLeaf = true;
		std::vector<St> nst = g.chance(1, 2) ? st : gen::numbering(g, static_cast<int>(std::min<size_t>(st.size(), 4)), static_cast<int>(g.below(3)));
		RTA o = anyLeaf ? gen::randProductiveTA(g, al, nst, g.range(1, 6), 1) : gen::randTA(g, al, nst, g.range(1, 6));
		Aut O = mkExpl(o, ca); if (g.chance(1, 3)) A = std::move(O); else A = O;
		a = o; R->count("in-place:assigned-another-automaton"); return;
	}
	if (k == 0) { St f = st[g.below(st.size())]; A.SetStateFinal(f); a.fin.insert(f); }
	else if (k == 1 && g.chance(1, 2)) { A.EraseFinalStates(); a.fin.clear(); St f = st[g.below(st.size())]; A.SetStateFinal(f); a.fin.insert(f); }
	else
	{
		RTA e = gen::randTA(g, al, st, g.range(1, 2), 0);
		for (auto& r : e.rules) { std::vector<size_t> ch(r.ch.begin(), r.ch.end()); A.AddTransition(ch, ca.num[r.sym], r.par); a.rules.insert(r); }
	}
}

// "Results as operands": with probability 1/4 the subject is replaced by the RESULT of a library
// operation on it (an object whose internal state has a history); its reference is what the
// result reads as. The case's alphabet object is set again (results may carry another one).
static void maybeDerive(vh::Rng& g, Aut& A, RTA& a, CaseAlphabet& ca, std::string& kind)
{
	if (!g.chance(1, 4)) return;
	static const char* names[] = {"remove-useless", "remove-unreachable", "reduce", "union-with-itself", "reindex", "copy-of-destroyed", "candidate"};
	int k = static_cast<int>(g.below(7));
	try
	{
		switch (k)
		{
			case 0: A = A.RemoveUselessStates(); break;
			case 1: A = A.RemoveUnreachableStates(); break;
			case 2: A = A.Reduce(); break;
			case 3: A = Aut::Union(A, A); break;
			case 4: { AutBase::StateToStateMap m; size_t c = 3; AutBase::StateToStateTranslWeak tr(m, [&c](const size_t&) { c += 2; return c; }); A = A.ReindexStates(tr); break; }
			case 5: { std::unique_ptr<Aut> tmp(new Aut(A)); Aut B2(*tmp); tmp.reset(); A = B2; break; }
			default: A = A.GetCandidateTree(); break;
		}
	}
	catch (std::exception&) { return; }
	A.SetAlphabet(ca.alpha); a = readExpl(A, &ca); (void)kind; R->count(std::string("derived-subject:") + names[k]);
}

// ----------------------------------------------------------------- the same operations through the `vata` binary
// (option parsing, loader, state-name dictionaries of the CLI, serializer) — every `cli_every`-th case
static bool cliDue(uint64_t idx) { return idx % static_cast<uint64_t>(R->param("cli_every", 200)) == 0; }
static bool cliRun(const std::string& prop, const std::string& what, const std::string& args, RTA& out)
{
	int rc = 0; R->phase("cli " + what); R->count("cli:" + what);
	std::string txt = runVata(args, rc);
	if (rc != 0) { R->violation(prop + "/cli/" + what + "/failed", "exit " + vh::str(rc) + ": " + txt.substr(0, 300)); return false; }
	try { std::map<std::string, St> ids; out = fromDump(txt, ids); }
	catch (std::exception& e) { R->violation(prop + "/cli/" + what + "/unparsable-output", std::string(e.what()) + "\n" + txt.substr(0, 300)); return false; }
	return true;
}
static void cliPass(const std::string& prop, const Alpha& al, const RTA& a, const RTA* b)
{
	std::string fa = R->outdir + "/" + R->tag + ".A.txt", fb = R->outdir + "/" + R->tag + ".B.txt";
	writeFile(fa, rm::toTimbuk(a, al, "A")); if (b) writeFile(fb, rm::toTimbuk(*b, al, "B"));
	RTA r;
	if (prop == "C02")
	{
		if (cliRun(prop, "union", "-r expl union " + fa + " " + fb, r) && rm::checkBin(a, *b, r, al, true) == 0) R->violation("C02/cli/union/language", "");
		if (cliRun(prop, "isect", "-r expl isect " + fa + " " + fb, r) && rm::checkBin(a, *b, r, al, false) == 0) R->violation("C02/cli/isect/language", "");
		if (cliRun(prop, "union-s", "-r expl -s union " + fa + " " + fb, r) && rm::checkBin(a, *b, r, al, true) == 0) R->violation("C02/cli/union-s/language", "");
		if (cliRun(prop, "union-p", "-r expl -p union " + fa + " " + fb, r) && rm::checkBin(a, *b, r, al, true) == 0) R->violation("C02/cli/union-p/language", "");
		if (cliRun(prop, "isect-s", "-r expl -s isect " + fa + " " + fb, r) && rm::checkBin(a, *b, r, al, false) == 0) R->violation("C02/cli/isect-s/language", "");
	}
	else if (prop == "C03")
	{
		if (cliRun(prop, "load-s", "-r expl -s load " + fa, r)) { if (rm::cmpLang(a, r, al) > 0) R->violation("C03/cli/load-s/language", ""); std::set<St> u = rm::useful(r); for (St q : r.states()) if (!u.count(q)) { R->violation("C03/cli/load-s/dead-state", ""); break; } }
		if (cliRun(prop, "load-p", "-r expl -p load " + fa, r)) { if (rm::cmpLang(a, r, al) > 0) R->violation("C03/cli/load-p/language", ""); std::set<St> rr = rm::reachableTD(r); for (St q : r.states()) if (!rr.count(q)) { R->violation("C03/cli/load-p/dead-state", ""); break; } }
		if (cliRun(prop, "load", "-r expl load " + fa, r) && rm::cmpLang(a, r, al) > 0) R->violation("C03/cli/load/language", "");
	}
	else if (prop == "C05")
	{
		if (cliRun(prop, "red", "-r expl red " + fa, r)) { if (rm::cmpLang(a, r, al) > 0) R->violation("C05/cli/red/language", ""); if (r.states().size() > a.states().size() || r.rules.size() > a.rules.size()) R->violation("C05/cli/red/grew", ""); }
	}
	else if (prop == "C06")
	{
		if (cliRun(prop, "cmpl", "-r expl cmpl " + fa, r))
		{
			bool outside = false; for (auto& x : r.rules) if (x.sym < 0 || x.sym >= static_cast<int>(al.rank.size()) || al.rank[x.sym] != static_cast<int>(x.ch.size())) outside = true;
			rm::Joint J = rm::jointReach({&a, &r}, al, 30000);
			if (outside) R->violation("C06/cli/cmpl/symbol-outside-alphabet", "");
			else if (!J.capped) for (auto& m : J.reach) if (J.acc(m, 0) == J.acc(m, 1)) { R->violation(std::string("C06/cli/cmpl/") + (J.acc(m, 0) ? "both-accept" : "neither-accepts"), ""); break; }
		}
	}
	else if (prop == "C15")
	{
		if (cliRun(prop, "witness", "-r expl witness " + fa, r)) { int c = rm::cmpLang(r, a, al); if (c > 0 && (c & 1)) R->violation("C15/cli/witness/not-sublanguage", ""); if (c >= 0 && rm::refEmpty(a, al) == 0 && rm::refEmpty(r, al) == 1) R->violation("C15/cli/witness/empty-witness", ""); }
	}
}

// ======================================================================= C03
static void caseC03(uint64_t idx, vh::Rng& g)
{
	Alpha al; RTA a; std::string kind; genSingle(idx, g, al, a, kind, 6, 12);
	if (cliDue(idx)) cliPass("C03", al, a, nullptr);
	CaseAlphabet ca(al); Aut A = mkExpl(a, ca); maybeDerive(g, A, a, ca, kind);
	R->desc(caseText(al, a)); R->count("gen:" + kind);
	int rounds = g.chance(1, 4) ? 3 : 1;   // a quarter of the cases: the same object again after in-place modification
	for (int round = 0; round < rounds; ++round)
	{
	std::string C03 = round ? "C03/after-in-place-mutation" : "C03";
	if (round) { mutateInPlace(g, al, A, a, ca); R->desc(caseText(al, a) + "(modified in place, round " + vh::str(round) + ")"); R->count("after-in-place-mutation"); R->extraEvaluation(); }
	std::set<St> useful = rm::useful(a), reach = rm::reachableTD(a), all = a.states();
	bool nontriv = !all.empty() && (useful.size() < all.size() || !useful.empty());
	if (nontriv) { R->nontrivial(caseHash(al, a)); if (R->wantSample()) R->sample(kind + "\n" + caseText(al, a)); }
	if (reach.size() < all.size()) R->count("has-unreachable-state");
	if (useful.size() < reach.size()) R->count("has-reachable-useless-state");
	{	// shape named in the quantifier: |reachable| == |rule owners| with different sets
		std::set<St> owners; for (auto& r : a.rules) owners.insert(r.par);
		if (reach.size() == owners.size() && reach != owners) R->count("shape:reach-size-equals-owner-size-sets-differ");
		for (St f : a.fin) if (!owners.count(f)) { R->count("shape:final-without-rules"); break; }
		if (a.fin.empty()) R->count("shape:no-final");
	}
	try
	{
		R->phase("RemoveUnreachableStates");
		// half of the calls supply the optional out-parameter (the result must not depend on it)
		// ... and half of those pass a map that still holds the entries of earlier calls on other automata (a caller that
		// reuses one map object, or pipes one map through RemoveUnreachableStates and RemoveUselessStates; seeded change m99)
		static AutBase::StateToStateMap carried; if (carried.size() > 48) carried.clear();
		AutBase::StateToStateMap fresh; bool uo = g.chance(1, 2); if (uo) R->count("out-parameter:unreach-map");
		bool reuseMap = uo && g.chance(1, 2); if (reuseMap) R->count("out-parameter:map-with-earlier-entries"); AutBase::StateToStateMap& um = reuseMap ? carried : fresh;
		Aut u = uo ? A.RemoveUnreachableStates(&um) : A.RemoveUnreachableStates(); RTA ru = readExpl(u, &ca);
		int c = rm::cmpLang(a, ru, al);
		if (c > 0) R->violation(C03 + "/unreach/language", "language changed (diff mask " + vh::str(c) + ")");
		else if (c < 0) R->inconclusive("rm-cap");
		std::set<St> rr = rm::reachableTD(ru);
		for (St s : ru.states()) if (!rr.count(s)) { R->violation(C03 + "/unreach/dead-state", "state " + vh::str(s) + " still occurs but is not reachable from a final state"); break; }
		if (readExpl(A, &ca) != a) R->violation(C03 + "/unreach/operand-changed", "");

		R->phase("RemoveUselessStates");
		AutBase::StateToStateMap fresh2; bool vo = g.chance(1, 2); if (vo) R->count("out-parameter:useless-map");
		bool reuse2 = vo && g.chance(1, 2); if (reuse2) R->count("out-parameter:map-with-earlier-entries"); AutBase::StateToStateMap& vm = reuse2 ? (uo && g.chance(1, 2) ? um : carried) : fresh2;
		Aut v = vo ? A.RemoveUselessStates(&vm) : A.RemoveUselessStates(); RTA rv = readExpl(v, &ca);
		c = rm::cmpLang(a, rv, al);
		if (c > 0) R->violation(C03 + "/useless/language", "language changed (diff mask " + vh::str(c) + ")");
		std::set<St> uu = rm::useful(rv), prod = rm::productive(rv);
		for (St s : rv.states()) if (!uu.count(s)) { R->violation(C03 + "/useless/dead-state", "state " + vh::str(s) + " takes part in no accepting run"); break; }
		for (auto& r : rv.rules)
		{
			bool ok = uu.count(r.par) != 0; for (St ch : r.ch) if (!prod.count(ch)) ok = false;
			if (!ok) { R->violation(C03 + "/useless/dead-rule", "rule with parent " + vh::str(r.par) + " takes part in no accepting run"); break; }
		}
		if (readExpl(A, &ca) != a) R->violation(C03 + "/useless/operand-changed", "");

		R->phase("IsLangEmpty");
		int e = rm::refEmpty(a, al);
		bool got = A.IsLangEmpty();
		if (e >= 0) { R->count(e ? "empty-language" : "nonempty-language"); if (got != static_cast<bool>(e)) R->violation(C03 + "/empty/verdict", std::string("IsLangEmpty=") + (got ? "true" : "false")); }
	}
	catch (std::exception& ex) { R->violation(C03 + "/exception", ex.what()); return; }
	}
}

// ======================================================================= C15
static void caseC15(uint64_t idx, vh::Rng& g)
{
	Alpha al; RTA a; std::string kind;
	if (idx % 5 == 4)
	{	// only accepted trees are deep: a unary/binary chain of length d with junk finals
		kind = "G3-deep"; al.rank = {0, 1, 2}; int d = g.range(6, 12);
		RRule l; l.sym = 0; l.par = 0; a.rules.insert(l);
		for (int i = 0; i < d; ++i)
		{
			RRule r; r.par = i + 1;
			if (g.chance(1, 3)) { r.sym = 2; r.ch = {static_cast<St>(i), static_cast<St>(g.below(i + 1))}; } else { r.sym = 1; r.ch = {static_cast<St>(i)}; }
			a.rules.insert(r);
		}
		a.fin.insert(d); if (g.chance(1, 2)) a.fin.insert(d + 5); // unproductive final
		if (g.chance(1, 2)) { RRule r; r.sym = 1; r.ch = {static_cast<St>(d + 7)}; r.par = d + 5; a.rules.insert(r); }
	}
	else genSingle(idx, g, al, a, kind, 6, 12);
	if (overrideInput(al, a, nullptr)) kind = "input-file";
	if (cliDue(idx)) cliPass("C15", al, a, nullptr);
	CaseAlphabet ca(al); Aut A = mkExpl(a, ca); maybeDerive(g, A, a, ca, kind);
	R->desc(caseText(al, a)); R->count("gen:" + kind);
	int rounds = g.chance(1, 4) ? 3 : 1;
	for (int round = 0; round < rounds; ++round)
	{
	std::string C15 = round ? "C15/after-in-place-mutation" : "C15";
	if (round) { mutateInPlace(g, al, A, a, ca); R->desc(caseText(al, a) + "(modified in place, round " + vh::str(round) + ")"); R->count("after-in-place-mutation"); R->extraEvaluation(); }
	int e = rm::refEmpty(a, al);
	if (e == 0) { R->nontrivial(caseHash(al, a)); if (R->wantSample()) R->sample(kind + "\n" + caseText(al, a)); }
	if (e >= 0) R->count(e ? "empty-language" : "nonempty-language");
	try
	{
		R->phase("GetCandidateTree");
		Aut c = A.GetCandidateTree(); RTA rc = readExpl(c, &ca);
		int r = rm::cmpLang(rc, a, al);
		if (r < 0) { R->inconclusive("rm-cap"); return; }
		if (r & 1) R->violation(C15 + "/not-sublanguage", "witness accepts a tree the original rejects");
		int ec = rm::refEmpty(rc, al);
		if (ec == 1 && e == 0) R->violation(C15 + "/empty-witness", "original language non-empty, witness empty");
		if (readExpl(A, &ca) != a) R->violation(C15 + "/operand-changed", "");
	}
	catch (std::exception& ex) { R->violation(C15 + "/exception", ex.what()); return; }
	}
}

// ======================================================================= C05
// one Reduce() of A judged against the reference automaton a
static bool reduceOnce(Aut& A, const RTA& a, const Alpha& al, CaseAlphabet& ca, const char* stage)
{
	std::string k = std::string("C05") + stage;
	R->phase(std::string("Reduce") + stage);
	Aut r = A.Reduce(); RTA rr = readExpl(r, &ca);
	rm::Joint J = rm::jointReach({&a, &rr}, al);
	if (J.capped) { R->inconclusive("rm-cap"); return false; }
	for (auto& m : J.reach) if (J.acc(m, 0) != J.acc(m, 1)) { R->violation(k + "/language", "Reduce changed the language"); return false; }
	std::set<St> sa = a.states(), sr = rr.states();
	if (sr.size() > sa.size()) R->violation(k + "/more-states", vh::str(sr.size()) + " > " + vh::str(sa.size()));
	if (rr.rules.size() > a.rules.size()) R->violation(k + "/more-rules", vh::str(rr.rules.size()) + " > " + vh::str(a.rules.size()));
	if (sr.size() < sa.size()) R->count("reduced-states");
	for (St s : sr) if (!sa.count(s))
	{	// not a state of A: accept it if some state of A has the same per-state language
		R->count("state-not-in-A");
		bool found = false; int bs = J.bit[1][s];
		for (St q : sa)
		{
			int bq = J.bit[0][q]; bool same = true;
			for (auto& m : J.reach) if (((m[1] >> bs) & 1) != ((m[0] >> bq) & 1)) { same = false; break; }
			if (same) { found = true; break; }
		}
		if (!found) { R->violation(k + "/state-not-an-image", "state " + vh::str(s) + " of the result corresponds to no state of the input"); break; }
	}
	if (readExpl(A, &ca) != a) { R->violation(k + "/operand-changed", ""); return false; }
	return true;
}

static void caseC05(uint64_t idx, vh::Rng& g)
{
	Alpha al; RTA a; std::string kind; genSingle(idx, g, al, a, kind, 7, 14);
	// half of the G1 cases get sparse numbers too
	if (g.chance(1, 2) && R->inputFile.empty())
	{
		std::map<St, St> m; std::vector<St> tgt = numbering(g, static_cast<int>(a.states().size()), 1 + static_cast<int>(g.below(2))); size_t i = 0;
		for (St s : a.states()) m[s] = tgt[i++];
		a = rm::mapStates(a, m); kind += "+sparse";
	}
	if (cliDue(idx)) cliPass("C05", al, a, nullptr);
	CaseAlphabet ca(al); Aut A = mkExpl(a, ca); maybeDerive(g, A, a, ca, kind);
	R->desc(caseText(al, a)); R->count("gen:" + kind);
	{	// non-trivial: the reference downward simulation equivalence has a class of size >= 2
		std::map<St, St> dm; RTA d = rm::densify(a, &dm); int n = static_cast<int>(dm.size());
		rm::Rel sim = rm::naiveDown(d, n); bool merge = false;
		for (int q = 0; q < n && !merge; ++q) for (int r = q + 1; r < n; ++r) if (sim[q][r] && sim[r][q]) { merge = true; break; }
		if (merge) { R->nontrivial(caseHash(al, a)); if (R->wantSample()) R->sample(kind + "\n" + caseText(al, a)); }
	}
	try
	{
		if (!reduceOnce(A, a, al, ca, "")) return;
		// the same OBJECT again after it was modified in place (a third of the cases, up to 3 rounds):
		// Reduce must judge the automaton as it is now, not as it was when it was reduced before
		if (g.chance(1, 3))
		{
			std::unique_ptr<Aut> copy; if (g.chance(1, 3)) copy.reset(new Aut(A));   // sometimes a live copy shares the storage
			for (int round = 0; round < 3; ++round)
			{
				mutateInPlace(g, al, A, a, ca); R->desc(caseText(al, a) + "(reduced, then modified in place, round " + vh::str(round) + ")"); R->count("reduce-after-in-place-mutation"); R->extraEvaluation();
				if (!reduceOnce(A, a, al, ca, "/after-in-place-mutation")) return;
			}
		}
	}
	catch (std::exception& ex) { R->violation("C05/exception", ex.what()); }
}

// ======================================================================= C06
static void caseC06(uint64_t idx, vh::Rng& g)
{
	Alpha al; RTA a; std::string kind;
	uint64_t nEx = static_cast<uint64_t>(R->param("exhaustive", 600));
	if (idx < nEx) { al = gen::sigma0(); a = ex2().get((idx * 4 + R->seed * 7919) % ex2().size()); kind = "G1-exhaustive2"; }
	else
	{
		int k = static_cast<int>(g.below(8));
		if (k == 0) { kind = "only-nullary"; int ns = g.range(1, 4); al.rank.assign(ns, 0); }
		else { kind = "random"; al = gen::randAlpha(g, 2, 1, 4); }
		int nst = g.range(1, static_cast<int>(R->param("S", 4)));
		// complementation is exponential in the rank: automata over an alphabet with a symbol of rank >= 3 stay at <= 3 states
		{ int maxr = 0; for (int r : al.rank) maxr = std::max(maxr, r); if (maxr >= 3) { nst = std::min(nst, 3); R->count("wide-alphabet(rank>=3)"); } }
		// A uses only a subset of the registered symbols now and then
		Alpha sub = al; if (g.chance(1, 3) && al.rank.size() > 1) { sub.rank[g.below(al.rank.size())] = -1; kind += "+unused-symbol"; }
		bool anyLeaf = false; for (int r : sub.rank) if (r == 0) anyLeaf = true;
		if (g.chance(1, 2) && anyLeaf) a = gen::randProductiveTA(g, sub, numbering(g, nst, 0), g.range(0, 7), 1);
		else a = gen::randTA(g, sub, numbering(g, nst, 0), g.range(0, 8));
		if (g.chance(1, 12))
		{	// universal language: one final state with every rule
			kind += "+universal"; a = RTA(); a.fin.insert(0);
			for (size_t s = 0; s < al.rank.size(); ++s) { RRule r; r.sym = static_cast<int>(s); r.ch.assign(al.rank[s], 0); r.par = 0; a.rules.insert(r); }
		}
	}
	if (overrideInput(al, a, nullptr)) kind = "input-file";
	if (cliDue(idx)) cliPass("C06", al, a, nullptr);
	CaseAlphabet ca(al); Aut A = mkExpl(a, ca); maybeDerive(g, A, a, ca, kind);
	R->desc(caseText(al, a)); R->count("gen:" + kind);
	// a quarter of the cases: the same object again after in-place modification; an eighth: the ALPHABET OBJECT grows
	// after the first complement (a symbol registered through the translator kept from the beginning, or through a
	// new one; the automaton may or may not start to use it) and the complement is taken again (seeded change m78)
	int rounds = g.chance(1, 4) ? 2 : 1; bool grow = R->inputFile.empty() && g.chance(1, 8); if (grow) rounds = g.range(2, 3);
	for (int round = 0; round < rounds; ++round)
	{
	std::string C06 = round ? (grow ? "C06/after-alphabet-growth" : "C06/after-in-place-mutation") : "C06";
	if (round && grow)
	{
		int maxr = 0; for (int r : al.rank) maxr = std::max(maxr, r);
		int rk = g.range(0, std::min(2, std::max(1, maxr))); int i = ca.extend(al, rk, g.chance(2, 3));
		if (g.chance(1, 2)) { std::set<St> ss = a.states(); std::vector<St> st(ss.begin(), ss.end()); if (st.empty()) st.push_back(0);
			RRule r; r.sym = i; for (int j = 0; j < rk; ++j) r.ch.push_back(st[g.below(st.size())]); r.par = st[g.below(st.size())];
			std::vector<size_t> ch(r.ch.begin(), r.ch.end()); A.AddTransition(ch, ca.num[i], r.par); a.rules.insert(r); }
		R->desc(caseText(al, a) + "(alphabet grown after the first complement)"); R->count("after-alphabet-growth"); R->extraEvaluation();
	}
	else if (round) { mutateInPlace(g, al, A, a, ca); R->desc(caseText(al, a) + "(modified in place)"); R->count("after-in-place-mutation"); R->extraEvaluation(); }
	try
	{
		R->phase("Complement");
		Aut c = A.Complement(); RTA rc = readExpl(c, &ca);
		// Σ' = S ∪ symbols used by C that are not in S (readExpl numbers them >= 1000000)
		Alpha ext = al; std::map<int, int> extra; RTA rcx;
		rcx.fin = rc.fin;
		for (auto r : rc.rules)
		{
			bool outside = r.sym >= 1000000 || r.sym >= static_cast<int>(al.rank.size()) || al.rank[r.sym] != static_cast<int>(r.ch.size());
			if (outside)
			{
				int key = r.sym * 8 + static_cast<int>(r.ch.size());
				auto it = extra.find(key);
				if (it == extra.end()) { it = extra.insert(std::make_pair(key, static_cast<int>(ext.rank.size()))).first; ext.rank.push_back(static_cast<int>(r.ch.size())); }
				r.sym = it->second;
			}
			rcx.rules.insert(r);
		}
		if (!extra.empty()) R->count("complement-uses-symbol-outside-S");
		// tracker D: state 1 = "some symbol outside S occurred", state 0 = clean
		RTA d; d.fin.insert(1);
		for (size_t s = 0; s < ext.rank.size(); ++s)
		{
			int k = ext.rank[s]; if (k < 0) continue; bool out = s >= al.rank.size();
			for (int mask = 0; mask < (1 << k); ++mask)
			{
				RRule r; r.sym = static_cast<int>(s); bool dirty = out;
				for (int j = 0; j < k; ++j) { int b = (mask >> j) & 1; r.ch.push_back(b); if (b) dirty = true; }
				r.par = dirty ? 1 : 0; d.rules.insert(r);
			}
		}
		rm::Joint J = rm::jointReach({&a, &rcx, &d}, ext, 30000);
		if (J.capped) { R->inconclusive("rm-cap"); return; }
		bool accSome = false, rejSome = false, bad = false;
		for (auto& m : J.reach)
		{
			bool dirty = J.acc(m, 2);
			if (!dirty) { if (J.acc(m, 0)) accSome = true; else rejSome = true; }
			if (!dirty && J.acc(m, 0) == J.acc(m, 1) && !bad) { bad = true; R->violation(C06 + (J.acc(m, 0) ? "/both-accept" : "/neither-accepts"), "a tree over S is accepted by " + std::string(J.acc(m, 0) ? "both" : "neither")); }
			if (dirty && J.acc(m, 1) && !bad) { bad = true; R->violation(C06 + "/accepts-outside-alphabet", "the complement accepts a tree using a symbol outside S"); }
		}
		R->count(accSome ? (rejSome ? "lang:proper" : "lang:universal") : "lang:empty");
		if (accSome && rejSome) { R->nontrivial(caseHash(al, a)); if (R->wantSample()) R->sample(kind + "\n" + caseText(al, a)); }
		if (readExpl(A, &ca) != a) R->violation(C06 + "/operand-changed", "");
	}
	catch (std::exception& ex) { R->violation(C06 + "/exception", ex.what()); return; }
	}
}

// ======================================================================= C02
static void checkUnionMaps(const char* op, const RTA& a, const RTA& b, const RTA& res,
	const AutBase::StateToStateMap& ma, const AutBase::StateToStateMap& mb,
	const AutBase::StateToStateMap& preA, const AutBase::StateToStateMap& preB)
{
	std::string k = std::string("C02/") + op;
	for (auto& p : preA) { auto it = ma.find(p.first); if (it == ma.end() || it->second != p.second) { R->violation(k + "/map-prefilled-entry-changed", ""); return; } }
	for (auto& p : preB) { auto it = mb.find(p.first); if (it == mb.end() || it->second != p.second) { R->violation(k + "/map-prefilled-entry-changed", ""); return; } }
	std::set<St> ra, rb; for (auto& p : ma) ra.insert(p.second); for (auto& p : mb) rb.insert(p.second);
	if (ra.size() != ma.size() || rb.size() != mb.size()) { R->violation(k + "/map-not-injective", ""); return; }
	for (St v : ra) if (rb.count(v)) { R->violation(k + "/map-ranges-overlap", "value " + vh::str(v)); return; }
	RTA img; bool total = true;
	auto mapRule = [&](const RRule& r, const AutBase::StateToStateMap& m) {
		RRule x; x.sym = r.sym; auto it = m.find(r.par); if (it == m.end()) { total = false; return; } x.par = it->second;
		for (St c : r.ch) { auto ic = m.find(c); if (ic == m.end()) { total = false; return; } x.ch.push_back(ic->second); }
		img.rules.insert(x); };
	for (auto& r : a.rules) mapRule(r, ma);
	for (auto& r : b.rules) mapRule(r, mb);
	for (St f : a.fin) { auto it = ma.find(f); if (it == ma.end()) total = false; else img.fin.insert(it->second); }
	for (St f : b.fin) { auto it = mb.find(f); if (it == mb.end()) total = false; else img.fin.insert(it->second); }
	if (!total) { R->violation(k + "/map-misses-state", "a state of an operand has no entry in the reported map"); return; }
	if (img != res) R->violation(k + "/map-image", "result is not the image of the operands under the reported maps");
}

static void checkProductMap(const char* op, const RTA& a, const RTA& b, const RTA& res, const AutBase::ProductTranslMap& pm)
{
	std::string k = std::string("C02/") + op;
	std::map<St, std::pair<St, St>> inv;
	for (auto& p : pm) if (!inv.insert(std::make_pair(p.second, p.first)).second) { R->violation(k + "/map-not-injective", "two pairs map to state " + vh::str(p.second)); return; }
	for (St s : res.states()) if (!inv.count(s)) { R->violation(k + "/map-misses-state", "state " + vh::str(s) + " of the result is no value of the map"); return; }
	for (auto& r : res.rules)
	{
		RRule pa, pb; pa.sym = pb.sym = r.sym; pa.par = inv[r.par].first; pb.par = inv[r.par].second;
		for (St c : r.ch) { pa.ch.push_back(inv[c].first); pb.ch.push_back(inv[c].second); }
		if (!a.rules.count(pa) || !b.rules.count(pb)) { R->violation(k + "/map-projection", "a rule of the result does not project to rules of the operands"); return; }
	}
	for (St f : res.fin) if (!a.fin.count(inv[f].first) || !b.fin.count(inv[f].second)) { R->violation(k + "/map-final", "final state of the result whose components are not both final"); return; }
}

static void caseC02(uint64_t idx, vh::Rng& g)
{
	Alpha al; RTA a, b; std::string kind;
	static gen::Exhaustive exPair(2, 2);
	uint64_t nEx = static_cast<uint64_t>(R->param("exhaustive", 2000));
	if (idx < nEx)
	{
		al = gen::sigma0(); kind = "G1-pair"; uint64_t n = exPair.size(), k = (idx * 2654435761ull + R->seed * 7919) % (n * n);
		a = exPair.get(k % n); b = exPair.get(k / n);
	}
	else gen::genPair(g, 5, 9, al, a, b, kind);
	if (overrideInput(al, a, &b)) kind = "input-file";
	if (cliDue(idx)) cliPass("C02", al, a, &b);
	CaseAlphabet ca(al); Aut A = mkExpl(a, ca), B = mkExpl(b, ca); maybeDerive(g, A, a, ca, kind); maybeDerive(g, B, b, ca, kind);
	if (idx >= nEx && kind != "input-file" && g.chance(1, 6))
	{	// forked operands: B starts as a copy of A (sharing its rule storage), then both are modified
		// differently in place — parts of the storage stay shared, the automata differ
		if (g.chance(1, 2)) B = A; else { Aut C(A); B = C; }
		b = a; int na = g.range(0, 2), nb = g.range(1, 3);
		for (int i = 0; i < na; ++i) mutateInPlace(g, al, A, a, ca);
		for (int i = 0; i < nb; ++i) mutateInPlace(g, al, B, b, ca);
		kind = "G6-forked-copies";
	}
	R->desc(caseText(al, a, &b)); R->count("gen:" + kind);
	int rounds = g.chance(1, 5) ? 2 : 1;   // a fifth of the cases: the same operand objects again after one was modified in place
	for (int round = 0; round < rounds; ++round)
	{
	std::string C02 = round ? "C02/after-in-place-mutation" : "C02";
	if (round) { if (g.chance(1, 2)) mutateInPlace(g, al, A, a, ca); else mutateInPlace(g, al, B, b, ca); R->desc(caseText(al, a, &b) + "(an operand was modified in place)"); R->count("after-in-place-mutation"); R->extraEvaluation(); }
	int ea = rm::refEmpty(a, al), eb = rm::refEmpty(b, al);
	bool nontriv = (ea == 0 && eb == 0);
	auto opnd = [&](const char* op) { if (readExpl(A, &ca) != a || readExpl(B, &ca) != b) R->violation(C02 + "/" + op + "/operand-changed", ""); };
	try
	{
		{	// Union with the various map arguments
			int mode = static_cast<int>(g.below(4));
			AutBase::StateToStateMap ma, mb, preA, preB;
			if (mode == 2) { for (St s : a.states()) ma[s] = 500 + s; for (St s : b.states()) mb[s] = 100000 + s; }
			else if (mode == 3) { for (St s : a.states()) if (g.chance(1, 2)) ma[s] = 500 + s; for (St s : b.states()) if (g.chance(1, 2)) mb[s] = 100000 + s; }
			preA = ma; preB = mb;
			R->phase("Union"); R->count("union-map-mode-" + vh::str(mode));
			Aut u = (mode == 0) ? Aut::Union(A, B) : Aut::Union(A, B, &ma, &mb);
			RTA ru = readExpl(u, &ca);
			int c = rm::checkBin(a, b, ru, al, true);
			if (c == 0) R->violation(C02 + "/union/language", "L(R) != L(A) ∪ L(B)"); else if (c < 0) R->inconclusive("rm-cap");
			if (mode != 0) checkUnionMaps("union", a, b, ru, ma, mb, preA, preB);
			if (nontriv && !ru.rules.empty()) { R->nontrivial(caseHash(al, a, &b)); if (R->wantSample()) R->sample(kind + "\n" + caseText(al, a, &b)); }
			opnd("union");
		}
		{	// UnionDisjointStates on a shifted / sparse copy of B (precondition: disjoint states)
			std::map<St, St> m; St off = g.chance(1, 2) ? 64 : 1000003; for (St s : b.states()) m[s] = s * (g.chance(1, 2) ? 1 : 3) + off;
			std::set<St> img; for (auto& p : m) img.insert(p.second);
			bool disjoint = true; for (St s : a.states()) if (img.count(s)) disjoint = false;   // the precondition, checked on the actual operands
			if (!disjoint) R->count("uniondisj-skipped(shifted-copy-not-disjoint)");
			if (img.size() == m.size() && disjoint)
			{
				RTA b2 = rm::mapStates(b, m); Aut B2 = mkExpl(b2, ca);
				R->phase("UnionDisjointStates");
				Aut u = Aut::UnionDisjointStates(A, B2); RTA ru = readExpl(u, &ca);
				if (ru != gen::unionRM(a, b2)) R->count("info:uniondisj-result-is-not-the-plain-union-of-rules");   // the property speaks about the language only
				int c = rm::checkBin(a, b2, ru, al, true);
				if (c == 0) R->violation(C02 + "/uniondisj/language", "L(R) != L(A) ∪ L(B)");
				if (readExpl(A, &ca) != a || readExpl(B2, &ca) != b2) R->violation(C02 + "/uniondisj/operand-changed", "");
			}
		}
		{
			AutBase::ProductTranslMap pm; bool withMap = g.chance(2, 3);
			R->phase("Intersection");
			Aut i1 = withMap ? Aut::Intersection(A, B, &pm) : Aut::Intersection(A, B); RTA ri = readExpl(i1, &ca);
			int c = rm::checkBin(a, b, ri, al, false);
			if (c == 0) R->violation(C02 + "/isect/language", "L(R) != L(A) ∩ L(B)");
			if (withMap) checkProductMap("isect", a, b, ri, pm);
			if (c == 1 && rm::refEmpty(ri, al) == 0) R->count("nonempty-intersection");
			opnd("isect");
		}
		{
			AutBase::ProductTranslMap pm; bool withMap = g.chance(2, 3);
			R->phase("IntersectionBU");
			Aut i2 = withMap ? Aut::IntersectionBU(A, B, &pm) : Aut::IntersectionBU(A, B); RTA rj = readExpl(i2, &ca);
			int c = rm::checkBin(a, b, rj, al, false);
			if (c == 0) R->violation(C02 + "/isectBU/language", "L(R) != L(A) ∩ L(B)");
			if (withMap) checkProductMap("isectBU", a, b, rj, pm);
			opnd("isectBU");
		}
	}
	catch (std::exception& ex) { R->violation(C02 + "/exception", ex.what()); return; }
	}
}

// ======================================================================= C14
namespace {
struct MapF : AbstractReindexF
{
	std::map<size_t, size_t>& m; explicit MapF(std::map<size_t, size_t>& mm) : m(mm) {}
	size_t operator[](const size_t& s) override { return m.at(s); }
	size_t at(const size_t& s) const override { return m.at(s); }
};
struct SymF : Aut::AbstractSymbolTranslateF
{
	std::map<size_t, size_t>& m; explicit SymF(std::map<size_t, size_t>& mm) : m(mm) {}
	size_t operator()(const size_t& s) override { return m.at(s); }
};
}

static void caseC14(uint64_t idx, vh::Rng& g)
{
	Alpha al; RTA a; std::string kind; genSingle(idx, g, al, a, kind, 6, 12);
	CaseAlphabet ca(al); Aut A = mkExpl(a, ca); maybeDerive(g, A, a, ca, kind);
	R->desc(caseText(al, a)); R->count("gen:" + kind);
	std::set<St> states = a.states(); int ns = static_cast<int>(states.size());
	std::map<size_t, size_t> m; int mode = static_cast<int>(g.below(5)); bool injective = true;
	{
		static const char* names[] = {"identity", "merging", "sparse-injective", "permutation", "merge-into-existing"};
		R->count(std::string("map:") + names[mode]);
		std::vector<St> sv(states.begin(), states.end()); size_t i = 0;
		for (St q : sv)
		{
			switch (mode)
			{
				case 0: m[q] = q; break;
				case 1: m[q] = g.below(std::max(1, ns / 2)); break;
				case 2: m[q] = 1000003ull * (i + 1); break;
				case 3: m[q] = sv[(i * 7 + 3) % sv.size()]; break;   // may or may not be a bijection
				default: m[q] = sv[g.below(sv.size())]; break;
			}
			++i;
		}
		std::set<size_t> img; for (auto& p : m) img.insert(p.second); injective = img.size() == m.size();
		R->count(injective ? "injective" : "non-injective");
	}
	kind += "/map-mode-" + vh::str(mode);
	if (!a.rules.empty() && ns >= 2) { R->nontrivial(vh::fnv(canon(al) + canon(a) + vh::str(mode) + vh::str(m.begin()->second) + vh::str(m.rbegin()->second))); if (R->wantSample()) R->sample(kind + "\n" + caseText(al, a)); }
	// the cross-checks of the oracle itself run the reference model, whose cost is |reach|^rank: not on derived subjects
	// with many states over an alphabet with a symbol of rank >= 3 (a 12-state case took 42 CPU seconds there)
	bool heavyRM = false; { int maxr = 0; for (int r : al.rank) maxr = std::max(maxr, r); heavyRM = maxr >= 3 && states.size() > 7; if (heavyRM) R->count("oracle-cross-check-skipped(heavy)"); }
	RTA img; for (auto& r : a.rules) { RRule x; x.sym = r.sym; x.par = m[r.par]; for (St c : r.ch) x.ch.push_back(m[c]); img.rules.insert(x); }
	for (St f : a.fin) img.fin.insert(m[f]);
	if (g.chance(1, 3) && m.size() >= 2)
	{	// a call the library must refuse (the map misses a state): it throws, and nothing of it may show in the calls
		// that follow (seeded change m93: a process-wide scratch tuple left half-filled by the refused call)
		R->phase("CollapseStates with a partial map (must throw)"); R->count("refused-partial-map");
		AutBase::StateToStateMap pm(m.begin(), m.end()); auto it = pm.begin(); std::advance(it, g.below(pm.size())); pm.erase(it);
		try { Aut b = A.CollapseStates(pm); RTA rb = readExpl(b, &ca); R->count("partial-map-accepted(missing-state-unused)"); }
		catch (std::exception&) { R->count("partial-map-refused"); }
		if (readExpl(A, &ca) != a) R->violation("C14/operand-changed", "by a refused CollapseStates");
	}
	try
	{
		{ R->phase("ReindexStates(functor)"); MapF f(m); Aut b = A.ReindexStates(f); RTA rb = readExpl(b, &ca);
		  if (rb != img) R->violation("C14/reindex-functor/image", "result is not the image under the state map");
		  if (injective && (rb.rules.size() != a.rules.size() || rb.states().size() != states.size())) R->violation("C14/reindex-functor/counts", "");
		  // cross-check of the oracle itself: L(A) ⊆ L(image)
		  if (!heavyRM && rm::refIncl(a, img, al) == 0) R->violation("C14/oracle/merging-loses-language", "reference model: image does not contain the original language"); }
		{ R->phase("ReindexStates(functor,no finals)"); MapF f(m); Aut b = A.ReindexStates(f, false); RTA rb = readExpl(b, &ca); RTA e = img; e.fin.clear();
		  if (rb != e) R->violation("C14/reindex-functor-nofinal/image", ""); }
		{ R->phase("CollapseStates"); AutBase::StateToStateMap cm(m.begin(), m.end()); Aut b = A.CollapseStates(cm); RTA rb = readExpl(b, &ca);
		  if (rb != img) R->violation("C14/collapse/image", "result is not the image under the state map"); }
		{	// weak translator: fresh numbering; result must be the image under the map it reports
			R->phase("ReindexStates(weak)");
			// the allocation function is the caller's: a counter (fresh numbers) or, in a third of the cases, a function
			// that gives several states the same number (a merging map delivered through the translator; seeded change m101)
			bool mergeAlloc = g.chance(1, 3); size_t modk = static_cast<size_t>(g.range(1, std::max(1, ns / 2))); if (mergeAlloc) R->count("weak-translator-merging-allocator");
			AutBase::StateToStateMap wm; size_t c = g.chance(1, 2) ? 0 : 100; AutBase::StateToStateTranslWeak tr(wm, [&c, mergeAlloc, modk](const size_t& q) { return mergeAlloc ? 700 + (q % modk) : c++; });
			Aut b = A.ReindexStates(tr); RTA rb = readExpl(b, &ca); RTA im2; bool ok = true;
			for (auto& r : a.rules) { RRule x; x.sym = r.sym; if (!wm.count(r.par)) { ok = false; break; } x.par = wm[r.par]; for (St cc : r.ch) { if (!wm.count(cc)) { ok = false; break; } x.ch.push_back(wm[cc]); } im2.rules.insert(x); }
			for (St f : a.fin) { if (!wm.count(f)) { ok = false; break; } im2.fin.insert(wm[f]); }
			if (!ok) R->violation("C14/reindex-weak/map-misses-state", "");
			else if (rb != im2) R->violation("C14/reindex-weak/image", "result is not the image under the reported translation");
			std::set<St> keys, vals; for (auto& p : wm) { keys.insert(p.first); vals.insert(p.second); }
			if (keys != states) R->violation("C14/reindex-weak/translator-keys", "translator does not contain exactly the states of the source");
			if (!mergeAlloc && vals.size() != wm.size()) R->violation("C14/reindex-weak/not-injective", "");
			if (!mergeAlloc && ok && (rb.rules.size() != a.rules.size() || rb.states().size() != states.size())) R->violation("C14/reindex-weak/counts", "");
			if (!mergeAlloc && ok && !heavyRM && rm::cmpLang(a, im2, al) > 0) R->violation("C14/oracle/injective-changes-language", "reference model: injective image has another language");
			if (mergeAlloc && ok) for (auto& p2 : wm) if (p2.second != 700 + (p2.first % modk)) { R->violation("C14/reindex-weak/translator-values", "the translator does not hold what the allocation function returned"); break; }
		}
		{	// one weak translator (and its counter) used for a second automaton that shares some state numbers with the
			// first: what it learnt for A stays, B's states that A also has keep A's images, the others get fresh ones, and
			// each result is the image under the accumulated map (this is how the library itself renumbers two operands
			// consistently)
			R->phase("ReindexStates(weak, translator reused)"); R->count("weak-translator-reused");
			RTA b0 = gen::randTA(g, al, numbering(g, g.range(1, 4), 0, states.empty() ? 0 : *states.begin()), g.range(1, 5), 1); Aut B = mkExpl(b0, ca);
			AutBase::StateToStateMap wm; size_t c = g.chance(1, 2) ? 0 : 1000; AutBase::StateToStateTranslWeak tr(wm, [&c](const size_t&) { return c++; });
			Aut ra = A.ReindexStates(tr); AutBase::StateToStateMap afterA = wm;
			bool into = false; Aut rbAut = B.ReindexStates(tr);   // (the overload that writes into a destination takes a functor, not a translator)
			bool ok = true; for (auto& p2 : afterA) { auto it = wm.find(p2.first); if (it == wm.end() || it->second != p2.second) ok = false; }
			if (!ok) R->violation("C14/reindex-weak-reused/earlier-entries-changed", "");
			std::set<size_t> vals; for (auto& p2 : wm) vals.insert(p2.second); if (vals.size() != wm.size()) R->violation("C14/reindex-weak-reused/not-injective", "");
			std::set<St> want = states, bs = b0.states(); want.insert(bs.begin(), bs.end()); std::set<St> keys; for (auto& p2 : wm) keys.insert(p2.first);
			if (keys != want) R->violation("C14/reindex-weak-reused/translator-keys", "translator does not contain exactly the states of both sources");
			else
			{
				auto image = [&](const RTA& x) { RTA im; for (auto& r : x.rules) { RRule y; y.sym = r.sym; y.par = wm[r.par]; for (St cc : r.ch) y.ch.push_back(wm[cc]); im.rules.insert(y); } for (St f : x.fin) im.fin.insert(wm[f]); return im; };
				RTA ia = image(a), ib = image(b0), exp = ib; if (into) { exp.rules.insert(ia.rules.begin(), ia.rules.end()); exp.fin.insert(ia.fin.begin(), ia.fin.end()); }
				if (readExpl(ra, &ca) != ia) R->violation("C14/reindex-weak-reused/first-result-changed", "the first result is no longer the image of A");
				if (readExpl(rbAut, &ca) != exp) R->violation("C14/reindex-weak-reused/image", "second result is not the image under the accumulated translation");
			}
			if (readExpl(B, &ca) != b0) R->violation("C14/operand-changed", "second source");
		}
		{	// into a non-empty destination
			R->phase("ReindexStates(into dst)");
			RTA d0 = gen::randTA(g, al, numbering(g, 3, 0, m.empty() ? 0 : m.begin()->second), 3, 1);
			Aut dst = mkExpl(d0, ca); bool fin = g.chance(1, 2); MapF f(m); A.ReindexStates(dst, f, fin);
			RTA exp = d0; exp.rules.insert(img.rules.begin(), img.rules.end()); if (fin) exp.fin.insert(img.fin.begin(), img.fin.end());
			if (readExpl(dst, &ca) != exp) R->violation("C14/reindex-into-dst/image", "destination != previous content ∪ image");
		}
		{	// symbols: map symbol numbers; symbols of the same rank may be merged
			R->phase("TranslateSymbols");
			std::map<size_t, size_t> sm; std::map<int, size_t> perRank; bool merge = g.chance(1, 2);
			for (size_t s = 0; s < al.rank.size(); ++s)
			{
				if (al.rank[s] < 0) continue;
				size_t tgt = 40 + 3 * s;
				if (merge) { auto it = perRank.find(al.rank[s]); if (it == perRank.end()) perRank[al.rank[s]] = tgt; else tgt = it->second; }
				sm[ca.num[s]] = tgt;
			}
			SymF sf(sm); Aut b = A.TranslateSymbols(sf); RTA rb = readExpl(b, nullptr); RTA im3; im3.fin = a.fin;
			for (auto& r : a.rules) { RRule x = r; x.sym = static_cast<int>(sm[ca.num[r.sym]]); im3.rules.insert(x); }
			if (rb != im3) R->violation("C14/translate-symbols/image", "result is not the image under the symbol map");
		}
		if (readExpl(A, &ca) != a) R->violation("C14/operand-changed", "");
	}
	catch (std::exception& ex) { R->violation("C14/exception", ex.what()); }
}

int main(int argc, char** argv)
{
	vh::Run run(argc, argv); R = &run;
	void (*fn)(uint64_t, vh::Rng&) = nullptr;
	if (run.prop == "C02") fn = caseC02; else if (run.prop == "C03") fn = caseC03; else if (run.prop == "C05") fn = caseC05;
	else if (run.prop == "C06") fn = caseC06; else if (run.prop == "C14") fn = caseC14; else if (run.prop == "C15") fn = caseC15;
	else { fprintf(stderr, "mon_ops: unknown property %s\n", run.prop.c_str()); return 2; }
	uint64_t idx;
	while (run.next(idx)) { vh::Rng g = run.rng(idx); vu::insertionRng() = &g; fn(idx, g); }
	return run.finish();
}
