// Relation monitors.
//   C04: ExplicitTreeAut::ComputeSimulation (downward on arbitrary automata, upward on
//        automata trimmed by the reference model), under several dense numberings / rule
//        insertion orders / symbol registration orders of the same automaton
//   C16: ExplicitLTS::computeSimulation with and without initial partition/preorder
// Oracle: naive greatest fixpoints (refmodel.hh; for the LTS: below).
#include "vata_util.hh"
#include "gen.hh"
#include <vata/explicit_lts.hh>
#include <vata/util/binary_relation.hh>

using namespace vu;
static vh::Run* R;

static gen::Exhaustive& ex2() { static gen::Exhaustive e(2); return e; }
static gen::Exhaustive& ex3() { static gen::Exhaustive e(3); return e; }

static std::string relStr(const rm::Rel& r)
{
	std::string s; for (auto& row : r) { for (bool b : row) s += b ? '1' : '0'; s += '/'; } return s;
}

// returns false on violation
static bool simOnNumbering(const char* dir, const RTA& d, int n, const Alpha& al, vh::Rng& g, bool shuffle, rm::Rel& out)
{
	std::vector<int> order; for (size_t i = 0; i < al.rank.size(); ++i) order.push_back(static_cast<int>(i));
	std::vector<RRule> rules(d.rules.begin(), d.rules.end());
	if (shuffle) { std::shuffle(order.begin(), order.end(), g); std::shuffle(rules.begin(), rules.end(), g); }
	CaseAlphabet ca(al, &order);
	Aut A = mkExpl(d, ca, &rules);
	bool up = dir[0] == 'u';
	SimParam sp; sp.SetRelation(up ? SimParam::e_sim_relation::TA_UPWARD : SimParam::e_sim_relation::TA_DOWNWARD); sp.SetNumStates(n);
	std::string key = std::string("C04/") + dir;
	R->phase(std::string("ComputeSimulation ") + dir);
	rm::Rel ref = up ? rm::naiveUp(d, n) : rm::naiveDown(d, n);
	out.assign(n, std::vector<bool>(n, false));
	try
	{
		// the relation is read from a fresh object, or from ONE object of the process that is assigned every new relation
		// (copy- or move-assignment: whatever the object remembers of the relation it held before must go), and the
		// pairs are queried in ascending, descending or random order (seeded change m103)
		static AutBase::StateDiscontBinaryRelation carried;
		std::vector<std::pair<int, int>> pairs; for (int q = 0; q < n; ++q) for (int r = 0; r < n; ++r) pairs.push_back(std::make_pair(q, r));
		int ord = static_cast<int>(g.below(3)); if (ord == 1) std::reverse(pairs.begin(), pairs.end()); else if (ord == 2) std::shuffle(pairs.begin(), pairs.end(), g);
		int how = static_cast<int>(g.below(3));
		if (how == 0) { auto rel = A.ComputeSimulation(sp); for (auto& p : pairs) out[p.first][p.second] = rel.get(p.first, p.second); }
		else
		{
			R->count("relation-object-reassigned");
			if (how == 1) carried = A.ComputeSimulation(sp); else { auto tmp = A.ComputeSimulation(sp); carried = tmp; }
			for (auto& p : pairs) out[p.first][p.second] = carried.get(p.first, p.second);
		}
	}
	catch (std::exception& e) { R->violation(key + "/exception", e.what()); return false; }
	if (out != ref)
	{
		bool extra = false, missing = false;
		for (int q = 0; q < n; ++q) for (int r = 0; r < n; ++r) { if (out[q][r] && !ref[q][r]) extra = true; if (!out[q][r] && ref[q][r]) missing = true; }
		R->violation(key + (extra ? (missing ? "/wrong-both-ways" : "/too-large") : "/not-greatest"),
			"library " + relStr(out) + " reference " + relStr(ref) + "\n" + rm::toTimbuk(d, al));
		return false;
	}
	for (int q = 0; q < n; ++q) if (!out[q][q]) { R->violation(key + "/not-reflexive", ""); return false; }
	for (int p = 0; p < n; ++p) for (int q = 0; q < n; ++q) if (out[p][q]) for (int r = 0; r < n; ++r) if (out[q][r] && !out[p][r]) { R->violation(key + "/not-transitive", ""); return false; }
	return true;
}

static void caseC04(uint64_t idx, vh::Rng& g)
{
	Alpha al; RTA a; std::string kind;
	uint64_t nEx = static_cast<uint64_t>(R->param("exhaustive", ex2().size()));
	if (idx < nEx)
	{
		al = gen::sigma0();
		if (nEx > ex2().size()) { kind = "G1-exhaustive3"; a = ex3().get((idx + R->seed * 7919) % ex3().size()); }
		else { kind = "G1-exhaustive2"; a = ex2().get((idx + R->seed * 7919) % ex2().size()); }
	}
	else
	{
		al = gen::randAlpha(g, 3); int k = static_cast<int>(g.below(7));
		if (k == 6)
		{	// larger automata: the LTS they are translated to has enough (label, state) pairs for several counter rows
			kind = "G2-large"; al = gen::randAlpha(g, 2, 3, 5);
			a = gen::randProductiveTA(g, al, gen::numbering(g, g.range(8, static_cast<int>(R->param("bigS", 16))), 0), g.range(15, 50), 3);
		}
		else if (k < 2) { kind = "G2-random"; a = gen::randTA(g, al, gen::numbering(g, g.range(1, 7), 0), g.range(1, 14)); }
		else if (k < 4) { kind = "G2-productive"; a = gen::randProductiveTA(g, al, gen::numbering(g, g.range(1, 7), 0), g.range(1, 14), 2); }
		else
		{
			kind = "G3-duplicated";
			RTA b = gen::randProductiveTA(g, al, gen::numbering(g, g.range(1, 4), 0), g.range(1, 7), 1);
			a = gen::unionRM(b, gen::shiftStates(b, 10)); if (g.chance(2, 3)) a = gen::mutate(g, al, a);
			if (g.chance(1, 2) && !a.rules.empty()) { auto it = a.rules.begin(); std::advance(it, g.below(a.rules.size())); RRule r = *it; if (!r.ch.empty()) { r.ch[g.below(r.ch.size())] += 10; a.rules.insert(r); } }
		}
	}
	R->count("gen:" + kind);
	int nperm = static_cast<int>(R->param("numberings", 3));
	// ---- downward: arbitrary automaton, dense numbering
	{
		RTA d = rm::densify(a); int n = static_cast<int>(d.states().size());
		R->desc(rm::toTimbuk(d, al));
		if (n > 0)
		{
			rm::Rel base; bool ok = simOnNumbering("down", d, n, al, g, false, base);
			R->count("down-runs");
			bool nontriv = false;
			if (ok && n >= 2)
			{
				bool ident = true, full = true;
				for (int q = 0; q < n; ++q) for (int r = 0; r < n; ++r) { if (q != r && base[q][r]) ident = false; if (!base[q][r]) full = false; }
				nontriv = !ident && !full;
			}
			if (nontriv) { R->nontrivial(vh::fnv("down" + canon(al) + canon(d))); if (R->wantSample()) R->sample(kind + " [down]\n" + rm::toTimbuk(d, al)); }
			for (int p = 0; p < nperm && ok && n >= 2; ++p)
			{
				std::vector<St> perm = gen::numbering(g, n, 3); std::map<St, St> m; for (int i = 0; i < n; ++i) m[i] = perm[i];
				RTA e = rm::mapStates(d, m); rm::Rel rel2;
				R->count("down-runs"); R->count("numberings-tried");
				if (!simOnNumbering("down", e, n, al, g, true, rel2)) break;
				for (int q = 0; q < n && ok; ++q) for (int r = 0; r < n; ++r) if (rel2[perm[q]][perm[r]] != base[q][r]) { R->violation("C04/down/numbering-dependent", "relation of the renumbered automaton is not the image"); ok = false; break; }
			}
		}
	}
	// ---- downward again on the SAME object after it was modified in place (a quarter of the cases)
	if (g.chance(1, 4))
	{
		RTA d = rm::densify(a); int n = static_cast<int>(d.states().size());
		if (n >= 2 && !d.rules.empty())
		{
			CaseAlphabet ca(al); Aut A = mkExpl(d, ca);
			SimParam sp; sp.SetRelation(SimParam::e_sim_relation::TA_DOWNWARD); sp.SetNumStates(n);
			try
			{
				R->phase("ComputeSimulation down (before in-place modification)"); { auto rel0 = A.ComputeSimulation(sp); (void)rel0; }
				for (int round = 0; round < 2; ++round)
				{
					std::vector<St> st; for (int i = 0; i < n; ++i) st.push_back(i);
					RTA e = gen::randTA(g, al, st, g.range(1, 2), 1);
					for (auto& r : e.rules) { std::vector<size_t> ch(r.ch.begin(), r.ch.end()); A.AddTransition(ch, ca.num[r.sym], r.par); d.rules.insert(r); }
					for (St f : e.fin) { A.SetStateFinal(f); d.fin.insert(f); }
					R->desc(rm::toTimbuk(d, al) + "(simulated, then modified in place, round " + vh::str(round) + ")"); R->count("down-after-in-place-mutation"); R->extraEvaluation();
					R->phase("ComputeSimulation down (same object after in-place modification)");
					auto rel = A.ComputeSimulation(sp); rm::Rel ref = rm::naiveDown(d, n); bool ok = true;
					for (int q = 0; q < n && ok; ++q) for (int r = 0; r < n; ++r) if (rel.get(q, r) != ref[q][r]) { R->violation(std::string("C04/down/after-in-place-mutation/") + (ref[q][r] ? "not-greatest" : "too-large"), "pair (" + vh::str(q) + "," + vh::str(r) + ")\n" + rm::toTimbuk(d, al)); ok = false; break; }
					if (!ok) break;
				}
			}
			catch (std::exception& e) { R->violation("C04/down/after-in-place-mutation/exception", e.what()); }
		}
	}
	// ---- upward: automaton without useless states (trimmed by the reference model)
	{
		RTA t = rm::densify(rm::trimRM(a)); int n = static_cast<int>(t.states().size());
		if (n > 0)
		{
			R->desc(rm::toTimbuk(t, al));
			rm::Rel base; bool ok = simOnNumbering("up", t, n, al, g, false, base);
			R->count("up-runs");
			bool nontriv = false;
			if (ok && n >= 2)
			{
				bool ident = true, full = true;
				for (int q = 0; q < n; ++q) for (int r = 0; r < n; ++r) { if (q != r && base[q][r]) ident = false; if (!base[q][r]) full = false; }
				nontriv = !ident && !full;
			}
			if (nontriv) { R->nontrivial(vh::fnv("up" + canon(al) + canon(t))); if (R->wantSample()) R->sample(kind + " [up, trimmed]\n" + rm::toTimbuk(t, al)); }
			for (int p = 0; p < nperm && ok && n >= 2; ++p)
			{
				std::vector<St> perm = gen::numbering(g, n, 3); std::map<St, St> m; for (int i = 0; i < n; ++i) m[i] = perm[i];
				RTA e = rm::mapStates(t, m); rm::Rel rel2;
				R->count("up-runs"); R->count("numberings-tried");
				if (!simOnNumbering("up", e, n, al, g, true, rel2)) break;
				for (int q = 0; q < n && ok; ++q) for (int r = 0; r < n; ++r) if (rel2[perm[q]][perm[r]] != base[q][r]) { R->violation("C04/up/numbering-dependent", "relation of the renumbered automaton is not the image"); ok = false; break; }
			}
		}
		else R->count("up-skipped-empty-after-trim");
	}
}

// ======================================================================= C16
typedef std::tuple<int, int, int> Edge;
static rm::Rel naiveLts(int n, const std::vector<Edge>& E, rm::Rel Rr)
{
	// greatest fixpoint by deleting pairs; edges indexed by source state
	std::vector<std::vector<std::pair<int, int>>> out(n);
	for (auto& e : E) out[std::get<0>(e)].push_back(std::make_pair(std::get<1>(e), std::get<2>(e)));
	bool ch = true;
	while (ch)
	{
		ch = false;
		for (int q = 0; q < n; ++q) for (int r = 0; r < n; ++r) if (Rr[q][r])
		{
			bool ok = true;
			for (auto& e : out[q])
			{
				bool ans = false;
				for (auto& f : out[r]) if (f.first == e.first && Rr[e.second][f.second]) { ans = true; break; }
				if (!ans) { ok = false; break; }
			}
			if (!ok) { Rr[q][r] = false; ch = true; }
		}
	}
	return Rr;
}

static std::string ltsStr(int n, const std::vector<Edge>& E)
{
	std::ostringstream os; os << "n=" << n << " E:"; for (auto& e : E) os << " " << std::get<0>(e) << "-" << std::get<1>(e) << ">" << std::get<2>(e); return os.str();
}

static void caseC16(uint64_t, vh::Rng& g)
{
	int maxN = static_cast<int>(R->param("N", 9));
	int n = g.range(1, maxN), L = g.range(1, 4), m = g.range(0, 3 * n);
	if (g.chance(1, 6))
	{	// large systems: the engine's counter tables span several rows only from 32 (label, state) pairs on,
		// and blocks are split repeatedly in the main refinement loop
		n = g.range(10, static_cast<int>(R->param("bigN", 40))); L = g.range(2, 6); m = g.range(n, 4 * n); R->count("large-lts");
	}
	std::vector<int> labels; for (int i = 0; i < L; ++i) labels.push_back(g.chance(1, 5) ? i * 2 + 1 : i);   // unused label numbers in between
	std::vector<Edge> E;
	int shape = static_cast<int>(g.below(4));
	for (int i = 0; i < m; ++i)
	{
		int q = static_cast<int>(g.below(n)), r = static_cast<int>(g.below(n));
		if (shape == 1) r = (q + 1) % n;              // rings / chains
		if (shape == 2 && n > 2) q = q % (n - 1);     // the last state has no outgoing edge
		E.emplace_back(q, g.pick(labels), r);
		if (g.chance(1, 8)) E.push_back(E.back());   // parallel edge
	}
	std::string d = ltsStr(n, E);
	// ---- no partition
	{
		ExplicitLTS lts(n); for (auto& e : E) lts.addTransition(std::get<0>(e), std::get<1>(e), std::get<2>(e)); lts.init();
		rm::Rel ref = naiveLts(n, E, rm::Rel(n, std::vector<bool>(n, true)));
		int out = g.chance(1, 2) ? n : g.range(1, n);
		R->desc(d + " out=" + vh::str(out)); R->phase("computeSimulation(outputSize)");
		try
		{
			// read from a fresh object or from one object of the process that is assigned every new relation (lesson of m103)
			static Util::BinaryRelation carriedRel; Util::BinaryRelation freshRel; bool reuseRel = g.chance(1, 2); if (reuseRel) R->count("relation-object-reassigned");
			Util::BinaryRelation& rel = reuseRel ? carriedRel : freshRel;
			if (out == n && g.chance(1, 2)) rel = lts.computeSimulation(); else { Util::BinaryRelation t = lts.computeSimulation(out); if (g.chance(1, 2)) rel = t; else rel = std::move(t); }
			R->count("plain-runs");
			if (rel.size() != static_cast<size_t>(out)) R->violation("C16/plain/output-size", "size " + vh::str(rel.size()) + " requested " + vh::str(out));
			else
			{
				bool ok = true;
				for (int q = 0; q < out && ok; ++q) for (int r = 0; r < out; ++r) if (rel.get(q, r) != ref[q][r]) { R->violation(std::string("C16/plain/") + (ref[q][r] ? "not-greatest" : "too-large"), d + " pair (" + vh::str(q) + "," + vh::str(r) + ")"); ok = false; break; }
			}
		}
		catch (std::exception& e) { R->violation("C16/plain/exception", e.what()); }
		bool ident = true, full = true;
		for (int q = 0; q < n; ++q) for (int r = 0; r < n; ++r) { if (q != r && ref[q][r]) ident = false; if (!ref[q][r]) full = false; }
		if (n >= 2 && !full) { R->nontrivial(vh::fnv("plain" + d)); if (R->wantSample()) R->sample("no partition: " + d); }
		(void)ident;
	}
	// ---- partition + reflexive, transitive relation on the blocks
	{
		ExplicitLTS lts(n); for (auto& e : E) lts.addTransition(std::get<0>(e), std::get<1>(e), std::get<2>(e)); lts.init();
		int B = g.range(1, std::min(n, n > 9 ? 8 : 4)); std::vector<int> blk(n); std::vector<std::vector<size_t>> part(B);
		for (int q = 0; q < n; ++q) { blk[q] = q < B ? q : static_cast<int>(g.below(B)); }
		if (g.chance(1, 2)) std::shuffle(blk.begin(), blk.end(), g);
		for (int q = 0; q < n; ++q) part[blk[q]].push_back(q);
		std::vector<std::vector<bool>> P(B, std::vector<bool>(B, false));
		for (int i = 0; i < B; ++i) P[i][i] = true;
		for (int i = 0; i < B; ++i) for (int j = 0; j < B; ++j) if (g.chance(1, 3)) P[i][j] = true;
		for (int k = 0; k < B; ++k) for (int i = 0; i < B; ++i) for (int j = 0; j < B; ++j) if (P[i][k] && P[k][j]) P[i][j] = true;
		Util::BinaryRelation br(B, false); for (int i = 0; i < B; ++i) for (int j = 0; j < B; ++j) br.set(i, j, P[i][j]);
		rm::Rel init(n, std::vector<bool>(n, false)); for (int q = 0; q < n; ++q) for (int r = 0; r < n; ++r) init[q][r] = P[blk[q]][blk[r]];
		rm::Rel ref = naiveLts(n, E, init);
		int out = g.chance(2, 3) ? n : g.range(1, n);
		std::ostringstream pd; pd << d << " blocks:"; for (int q = 0; q < n; ++q) pd << blk[q]; pd << " P:"; for (int i = 0; i < B; ++i) { for (int j = 0; j < B; ++j) pd << P[i][j]; pd << "/"; } pd << " out=" << out;
		R->desc(pd.str()); R->phase("computeSimulation(partition,relation,outputSize)");
		try
		{
			static Util::BinaryRelation carriedRel2; Util::BinaryRelation freshRel2; bool reuseRel2 = g.chance(1, 2); if (reuseRel2) R->count("relation-object-reassigned");
			Util::BinaryRelation& rel = reuseRel2 ? carriedRel2 : freshRel2;
			rel = lts.computeSimulation(part, br, out);
			R->count("partition-runs");
			if (rel.size() != static_cast<size_t>(out)) R->violation("C16/partition/output-size", "size " + vh::str(rel.size()) + " requested " + vh::str(out));
			else
			{
				bool ok = true;
				for (int q = 0; q < out && ok; ++q) for (int r = 0; r < out; ++r) if (rel.get(q, r) != ref[q][r]) { R->violation(std::string("C16/partition/") + (ref[q][r] ? "not-greatest" : "too-large"), pd.str() + " pair (" + vh::str(q) + "," + vh::str(r) + ")"); ok = false; break; }
			}
		}
		catch (std::exception& e) { R->violation("C16/partition/exception", e.what()); }
		if (n >= 2 && ref != init) { R->nontrivial(vh::fnv("part" + pd.str())); if (R->wantSample()) R->sample("partition: " + pd.str()); }
	}
}

int main(int argc, char** argv)
{
	vh::Run run(argc, argv); R = &run;
	void (*fn)(uint64_t, vh::Rng&) = nullptr;
	if (run.prop == "C04") fn = caseC04; else if (run.prop == "C16") fn = caseC16;
	else { fprintf(stderr, "mon_sim: unknown property %s\n", run.prop.c_str()); return 2; }
	uint64_t idx;
	while (run.next(idx)) { vh::Rng g = run.rng(idx); vu::insertionRng() = &g; fn(idx, g); }
	return run.finish();
}
