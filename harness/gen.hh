// Workload generators shared by the tree-automata monitors (DESIGN.md §4).
#pragma once
#include "common.hh"
#include "refmodel.hh"

namespace gen {
using rm::RTA; using rm::RRule; using rm::Alpha; using rm::St; using rm::RFA;
using vh::Rng;

// ---------------------------------------------------------------- alphabets
// 2–5 symbols, rank 0–maxRank, symbol 0 is always nullary
inline Alpha randAlpha(Rng& g, int maxRank = 2, int minSyms = 2, int maxSyms = 5)
{
	Alpha al; int ns = g.range(minSyms, maxSyms);
	for (int i = 0; i < ns; ++i) al.rank.push_back(i == 0 ? 0 : g.range(0, maxRank));
	// a fifth of the alphabets: one symbol one rank wider than asked for (ranks 3-4: tuples with
	// non-adjacent repeated states, more than two sibling positions)
	if (ns >= 2 && g.chance(1, 5)) al.rank[1 + g.below(ns - 1)] = maxRank + 1;
	return al;
}
inline Alpha sigma0() { Alpha al; al.rank = {0, 0, 1, 2}; return al; } // a/0 b/0 f/1 g/2

// ---------------------------------------------------------------- state numberings
// kinds of state numbers an operand can carry
inline std::vector<St> numbering(Rng& g, int n, int kind, St offset = 0)
{
	std::vector<St> v;
	for (int i = 0; i < n; ++i)
	{
		switch (kind)
		{
			case 0: v.push_back(offset + i); break;                              // dense
			case 1: v.push_back(offset + 7 * i + 3); break;                      // gaps
			case 2: v.push_back(offset + 1000003ull * (i + 1) + g.below(7)); break; // sparse, large
			default: v.push_back(offset + i); break;
		}
	}
	if (kind == 3) std::shuffle(v.begin(), v.end(), g);                    // dense, permuted
	return v;
}

// ---------------------------------------------------------------- G2 random
inline RTA randTA(Rng& g, const Alpha& al, const std::vector<St>& st, int nrules, int maxFinal = 2)
{
	RTA a; int n = static_cast<int>(st.size());
	if (n == 0) return a;
	std::vector<int> syms; for (size_t i = 0; i < al.rank.size(); ++i) if (al.rank[i] >= 0) syms.push_back(static_cast<int>(i));
	for (int i = 0; i < nrules && !syms.empty(); ++i)
	{
		RRule r; r.sym = g.pick(syms);
		for (int j = 0; j < al.rank[r.sym]; ++j) r.ch.push_back(st[g.below(n)]);
		r.par = st[g.below(n)]; a.rules.insert(r);
	}
	int nf = g.range(0, maxFinal);
	for (int i = 0; i < nf; ++i) a.fin.insert(st[g.below(n)]);
	return a;
}

// random automaton biased towards a non-empty language: leaves first, then rules whose
// children are already productive, final states among the productive ones
inline RTA randProductiveTA(Rng& g, const Alpha& al, const std::vector<St>& st, int nrules, int extraJunk = 1)
{
	RTA a; int n = static_cast<int>(st.size());
	if (n == 0) return a;
	std::vector<int> leaves, inner;
	for (size_t i = 0; i < al.rank.size(); ++i) { if (al.rank[i] == 0) leaves.push_back(static_cast<int>(i)); else if (al.rank[i] > 0) inner.push_back(static_cast<int>(i)); }
	std::vector<St> prod;
	int nl = g.range(1, 2);
	for (int i = 0; i < nl && !leaves.empty(); ++i)
	{
		RRule r; r.sym = g.pick(leaves); r.par = st[g.below(n)]; a.rules.insert(r); prod.push_back(r.par);
	}
	for (int i = 0; i < nrules && !prod.empty(); ++i)
	{
		RRule r;
		if (inner.empty() || g.chance(1, 5)) { if (leaves.empty()) continue; r.sym = g.pick(leaves); }
		else r.sym = g.pick(inner);
		for (int j = 0; j < al.rank[r.sym]; ++j) r.ch.push_back(g.pick(prod));
		r.par = st[g.below(n)]; a.rules.insert(r); prod.push_back(r.par);
	}
	int nf = g.range(1, 2);
	for (int i = 0; i < nf && !prod.empty(); ++i) a.fin.insert(g.pick(prod));
	// junk: unproductive / unreachable rules and final states without rules
	for (int i = 0; i < extraJunk; ++i) if (g.chance(1, 2))
	{
		RTA j = randTA(g, al, st, 1, 1);
		a.rules.insert(j.rules.begin(), j.rules.end());
		if (g.chance(1, 3)) a.fin.insert(j.fin.begin(), j.fin.end());
	}
	if (extraJunk > 0 && !inner.empty() && !leaves.empty() && n >= 3 && g.chance(1, 5))
	{	// a final state with an EMPTY language above a productive sub-automaton that nothing useful reaches: a rule with
		// one never-productive child (a state without rules) and productive children that only this rule uses
		// (trimming that prunes in two passes; seeded change m90)
		St dead = st[g.below(n)], top = st[g.below(n)], p = st[g.below(n)];
		bool deadHasRules = false; for (auto& r : a.rules) if (r.par == dead) deadHasRules = true;
		if (!deadHasRules && dead != p && dead != top)
		{
			RRule l; l.sym = g.pick(leaves); l.par = p; a.rules.insert(l);
			RRule r; r.sym = g.pick(inner); int k = al.rank[r.sym]; int pos = static_cast<int>(g.below(k));
			for (int jj = 0; jj < k; ++jj) r.ch.push_back(jj == pos ? dead : p);
			r.par = top; a.rules.insert(r); a.fin.insert(top);
		}
	}
	return a;
}

// ---------------------------------------------------------------- G1 exhaustive-small
// All automata over sigma0 with <= nst states, <= 3 rules and any final set.
class Exhaustive
{
	int nst_; std::vector<RRule> allRules_; std::vector<std::vector<int>> subsets_;
public:
	explicit Exhaustive(int nst, int maxRules = 3) : nst_(nst), allRules_(), subsets_()
	{
		Alpha al = sigma0();
		for (int sym = 0; sym < 4; ++sym)
		{
			int k = al.rank[sym]; std::vector<St> ch(k, 0);
			while (true)
			{
				for (int p = 0; p < nst; ++p) { RRule r; r.sym = sym; r.ch = ch; r.par = p; allRules_.push_back(r); }
				int j = 0; while (j < k && ++ch[j] == static_cast<St>(nst)) { ch[j] = 0; ++j; }
				if (j == k) break;
			}
		}
		int R = static_cast<int>(allRules_.size());
		subsets_.push_back({});
		for (int a = 0; a < R && maxRules >= 1; ++a)
		{
			subsets_.push_back({a});
			for (int b = a + 1; b < R && maxRules >= 2; ++b)
			{
				subsets_.push_back({a, b});
				for (int c = b + 1; c < R && maxRules >= 3; ++c) subsets_.push_back({a, b, c});
			}
		}
	}
	uint64_t size() const { return subsets_.size() * (1ull << nst_); }
	RTA get(uint64_t i) const
	{
		RTA a; uint64_t fm = i % (1ull << nst_); const auto& sub = subsets_[(i >> nst_) % subsets_.size()];
		for (int r : sub) a.rules.insert(allRules_[r]);
		for (int s = 0; s < nst_; ++s) if ((fm >> s) & 1) a.fin.insert(s);
		return a;
	}
};

// ---------------------------------------------------------------- G3 structured
// (a) binary rules whose children are reached by different trees; inclusion holds only
//     through several bigger states at once
inline RTA mutate(Rng& g, const Alpha& al, const RTA& a);
inline RTA unionRM(const RTA& a, const RTA& b);
inline RTA shiftStates(const RTA& a, St off);
inline void structuredPair(Rng& g, Alpha& al, RTA& a, RTA& b)
{
	al.rank = {0, 0, 2, 1};
	int kind = static_cast<int>(g.below(6));
	a = RTA(); b = RTA();
	auto R = [](int sym, std::vector<St> ch, St par) { RRule r; r.sym = sym; r.ch = ch; r.par = par; return r; };
	if (kind == 0)
	{	// A: trees over {s0,s1} with binary s2; B splits by which leaf, parity-like states
		a.rules = {R(0, {}, 0), R(1, {}, 0), R(2, {0, 0}, 0)}; a.fin = {0};
		int nb = g.range(2, 4);
		for (int i = 0; i < nb; ++i) { b.rules.insert(R(static_cast<int>(g.below(2)), {}, i)); }
		int nr = g.range(2, 8);
		for (int i = 0; i < nr; ++i) b.rules.insert(R(2, {g.below(nb), g.below(nb)}, g.below(nb)));
		for (int i = 0; i < nb; ++i) if (g.chance(1, 2)) b.fin.insert(i);
	}
	else if (kind == 1)
	{	// deep unary chains with one binary join
		int d = g.range(3, 7);
		a.rules.insert(R(0, {}, 0));
		for (int i = 0; i < d; ++i) a.rules.insert(R(3, {static_cast<St>(i)}, static_cast<St>(i + 1)));
		a.rules.insert(R(2, {static_cast<St>(d), static_cast<St>(g.below(d + 1))}, static_cast<St>(d)));
		a.fin = {static_cast<St>(d)};
		int e = d + g.range(-1, 1);
		b.rules.insert(R(0, {}, 0));
		for (int i = 0; i < e; ++i) { b.rules.insert(R(3, {static_cast<St>(i)}, static_cast<St>(i + 1))); if (g.chance(1, 3)) b.rules.insert(R(3, {static_cast<St>(i)}, static_cast<St>(g.below(e + 1)))); }
		b.rules.insert(R(2, {static_cast<St>(e), static_cast<St>(g.below(e + 1))}, static_cast<St>(e)));
		if (g.chance(1, 2)) b.rules.insert(R(2, {static_cast<St>(g.below(e + 1)), static_cast<St>(g.below(e + 1))}, static_cast<St>(e)));
		b.fin = {static_cast<St>(e)};
	}
	else if (kind == 2)
	{	// many tuples per (state, symbol), few states
		int na = g.range(2, 3), nb = g.range(2, 4);
		for (int i = 0; i < na; ++i) a.rules.insert(R(static_cast<int>(g.below(2)), {}, g.below(na)));
		for (int i = 0; i < g.range(3, 9); ++i) a.rules.insert(R(2, {g.below(na), g.below(na)}, g.below(na)));
		a.fin.insert(g.below(na));
		for (int i = 0; i < nb; ++i) b.rules.insert(R(static_cast<int>(g.below(2)), {}, g.below(nb)));
		for (int i = 0; i < g.range(4, 14); ++i) b.rules.insert(R(2, {g.below(nb), g.below(nb)}, g.below(nb)));
		b.fin.insert(g.below(nb)); if (g.chance(1, 2)) b.fin.insert(g.below(nb));
	}
	else if (kind == 3)
	{	// the same state at several child positions + unary cycles, so that macro-states of one
		// smaller state are discovered in different rounds; the bigger automaton has binary rules
		// for most but not all combinations of its states
		al.rank = {0, 0, 2, 1, 1};
		int na = g.range(1, 3), nb = g.range(2, 5);
		a.rules.insert(R(static_cast<int>(g.below(2)), {}, g.below(na)));
		for (int i = 0; i < g.range(1, 3); ++i) { St q = g.below(na); a.rules.insert(R(2, {q, q}, g.below(na))); }
		for (int i = 0; i < g.range(1, 4); ++i) a.rules.insert(R(3 + static_cast<int>(g.below(2)), {g.below(na)}, g.below(na)));
		if (g.chance(1, 2)) a.rules.insert(R(2, {g.below(na), g.below(na)}, g.below(na)));
		a.fin.insert(g.below(na)); if (g.chance(1, 3)) a.fin.insert(g.below(na));
		for (int i = 0; i < g.range(1, 3); ++i) b.rules.insert(R(static_cast<int>(g.below(2)), {}, g.below(nb)));
		for (St x = 0; x < static_cast<St>(nb); ++x) for (St y = 0; y < static_cast<St>(nb); ++y) if (!g.chance(1, 4)) b.rules.insert(R(2, {x, y}, g.below(nb)));
		for (int i = 0; i < g.range(2, 8); ++i) b.rules.insert(R(3 + static_cast<int>(g.below(2)), {g.below(nb)}, g.below(nb)));
		for (int i = 0; i < g.range(1, 3); ++i) b.fin.insert(g.below(nb));
	}
	else if (kind == 4)
	{	// simulation-rich: copies of one core automaton, weakened (rules/final states removed) and
		// strengthened (rules added), spread over both operands — the simulation preorders of the disjoint
		// union contain strict chains q < q' < q'', within and across the operands (simulation-assisted
		// pruning of the antichains; seeded change m63)
		al = randAlpha(g);
		RTA x = randProductiveTA(g, al, numbering(g, g.range(2, 4), 0), g.range(3, 8), 0);
		auto weaker = [&](RTA y) { int n = g.range(1, 2); for (int i = 0; i < n && y.rules.size() > 1; ++i) { auto it = y.rules.begin(); std::advance(it, g.below(y.rules.size())); y.rules.erase(it); } return y; };
		auto stronger = [&](RTA y) { std::set<St> ss = y.states(); std::vector<St> st(ss.begin(), ss.end()); if (st.empty()) return y; RTA e = randTA(g, al, st, g.range(1, 3), 0); y.rules.insert(e.rules.begin(), e.rules.end()); if (g.chance(1, 3)) y.fin.insert(st[g.below(st.size())]); return y; };
		RTA lo = weaker(x), hi = stronger(x);
		int m = static_cast<int>(g.below(4));
		if (m == 0) { a = unionRM(lo, shiftStates(x, 10)); b = unionRM(x, shiftStates(hi, 10)); }
		else if (m == 1) { a = unionRM(x, shiftStates(lo, 10)); b = unionRM(unionRM(lo, shiftStates(hi, 10)), shiftStates(x, 20)); }
		else if (m == 2) { a = unionRM(x, shiftStates(hi, 10)); b = unionRM(hi, shiftStates(stronger(lo), 10)); }
		else { a = unionRM(lo, shiftStates(weaker(lo), 10)); b = unionRM(stronger(hi), shiftStates(x, 10)); }
		if (g.chance(1, 4)) b = mutate(g, al, b);
		if (g.chance(1, 4)) a = mutate(g, al, a);
	}
	else
	{	// small A, large B (many macro-states created and destroyed in one check)
		std::vector<St> sa = numbering(g, g.range(1, 4), 0), sb = numbering(g, g.range(6, 12), 0);
		a = randProductiveTA(g, al, sa, g.range(2, 8), 0);
		b = randProductiveTA(g, al, sb, g.range(10, 30), 1);
		for (int i = 0; i < 3; ++i) b.fin.insert(sb[g.below(sb.size())]);
	}
}

// ---------------------------------------------------------------- G5 near-boundary mutation
inline RTA mutate(Rng& g, const Alpha& al, const RTA& a)
{
	RTA r = a; std::set<St> ss = a.states(); std::vector<St> st(ss.begin(), ss.end());
	if (st.empty()) st.push_back(0);
	int k = static_cast<int>(g.below(4));
	if (k == 0 && !r.rules.empty()) { auto it = r.rules.begin(); std::advance(it, g.below(r.rules.size())); r.rules.erase(it); }
	else if (k == 1) { RTA e = randTA(g, al, st, 1, 0); r.rules.insert(e.rules.begin(), e.rules.end()); }
	else if (k == 2) { St f = st[g.below(st.size())]; if (r.fin.count(f)) r.fin.erase(f); else r.fin.insert(f); }
	else { St n = st.back() + 1; st.push_back(n); RTA e = randTA(g, al, st, 2, 1); r.rules.insert(e.rules.begin(), e.rules.end()); r.fin.insert(e.fin.begin(), e.fin.end()); }
	return r;
}

// reference union on RTAs with disjoint states (used to build related pairs)
inline RTA unionRM(const RTA& a, const RTA& b)
{
	RTA r = a; r.fin.insert(b.fin.begin(), b.fin.end()); r.rules.insert(b.rules.begin(), b.rules.end()); return r;
}
inline RTA shiftStates(const RTA& a, St off)
{
	RTA r; for (St f : a.fin) r.fin.insert(f + off);
	for (auto& t : a.rules) { RRule q = t; q.par += off; for (auto& c : q.ch) c += off; r.rules.insert(q); }
	return r;
}

// A general-purpose pair generator mixing the families; sizes bounded by S states / R rules.
// kind is reported for statistics.
inline void genPair(Rng& g, int S, int R, Alpha& al, RTA& a, RTA& b, std::string& kind, bool moreStructured = false)
{
	int k = static_cast<int>(g.below(moreStructured ? 15 : 10));
	if (k >= 10) k = 7;   // extra weight on the structured families
	if (k < 3)
	{	// G2 plain random
		kind = "G2-random"; al = randAlpha(g);
		a = randTA(g, al, numbering(g, g.range(1, S), 0), g.range(1, R));
		b = randTA(g, al, numbering(g, g.range(1, S), 0), g.range(1, R + 2));
	}
	else if (k < 5)
	{	// productive random: both languages non-empty most of the time
		kind = "G2-productive"; al = randAlpha(g);
		a = randProductiveTA(g, al, numbering(g, g.range(1, S), 0), g.range(1, R));
		b = randProductiveTA(g, al, numbering(g, g.range(1, S), 0), g.range(2, R + 4));
	}
	else if (k < 7)
	{	// related by construction: B = A ∪ X (included), then maybe mutated (near boundary)
		kind = "G3-related"; al = randAlpha(g);
		a = randProductiveTA(g, al, numbering(g, g.range(1, std::max(1, S - 1)), 0), g.range(1, R));
		RTA x = randProductiveTA(g, al, numbering(g, g.range(1, 3), 0), g.range(1, 5));
		b = unionRM(a, shiftStates(x, 20));
		int m = static_cast<int>(g.below(3));
		if (m == 1) { b = mutate(g, al, b); kind = "G5-mutated-bigger"; }
		else if (m == 2) { a = mutate(g, al, a); kind = "G5-mutated-smaller"; }
	}
	else if (k < 9) { kind = "G3-structured"; structuredPair(g, al, a, b); }
	else
	{	// same automaton under another numbering (equal languages)
		kind = "G3-renamed"; al = randAlpha(g);
		a = randProductiveTA(g, al, numbering(g, g.range(1, S), 0), g.range(1, R));
		std::map<St, St> m; std::vector<St> tgt = numbering(g, static_cast<int>(a.states().size()), 3); size_t i = 0;
		for (St s : a.states()) m[s] = tgt[i++];
		b = rm::mapStates(a, m);
		if (g.chance(1, 2)) { b = mutate(g, al, b); kind = "G5-renamed-mutated"; }
	}
}

// ---------------------------------------------------------------- NFAs
inline RFA randFA(Rng& g, int S, int T, int nsym, St off = 0)
{
	RFA a; int n = g.range(1, S);
	int ns = g.range(0, 2); for (int i = 0; i < ns; ++i) a.start.insert(off + g.below(n));
	int nf = g.range(0, 2); for (int i = 0; i < nf; ++i) a.fin.insert(off + g.below(n));
	int nt = g.range(0, T);
	for (int i = 0; i < nt; ++i) a.tr.insert(std::make_tuple(off + g.below(n), static_cast<int>(g.below(nsym)), off + g.below(n)));
	return a;
}
// NFA with a non-empty language most of the time: a path from a start to a final state plus noise
inline RFA randLiveFA(Rng& g, int S, int T, int nsym, St off = 0)
{
	RFA a; int n = g.range(1, S);
	St cur = off + g.below(n); a.start.insert(cur);
	int len = g.range(0, std::min(n + 1, 5));
	for (int i = 0; i < len; ++i) { St nx = off + g.below(n); a.tr.insert(std::make_tuple(cur, static_cast<int>(g.below(nsym)), nx)); cur = nx; }
	a.fin.insert(cur);
	int nt = g.range(0, T);
	for (int i = 0; i < nt; ++i) a.tr.insert(std::make_tuple(off + g.below(n), static_cast<int>(g.below(nsym)), off + g.below(n)));
	if (g.chance(1, 3)) a.start.insert(off + g.below(n));
	if (g.chance(1, 3)) a.fin.insert(off + g.below(n));
	return a;
}

// the downward inclusion algorithms enumerate choice functions over the bigger automaton's tuples
// of one symbol: running time exponential in this number (heavy tail, DESIGN.md §7.1)
inline size_t maxTuples(const RTA& b)
{
	std::map<int, size_t> cnt; size_t mx = 0;
	for (auto& r : b.rules) if (r.ch.size() >= 2) mx = std::max(mx, ++cnt[r.sym]);
	return mx;
}

} // namespace gen
