// Reference models — the trusted base of the differential monitors. Independent of libvata:
// own containers, no antichains, no sanitisation, no hash-consing.
//
//  * RTA  + jointReach : bottom-up subset construction of several tree automata *jointly*;
//                        every Boolean statement about languages is a predicate on the set
//                        of reachable vectors of macro-states.
//  * RFA  + jointWord  : the same for NFAs with start states.
//  * naiveDown / naiveUp : greatest fixpoints of the two simulation definitions of C04.
#pragma once
#include <vector>
#include <set>
#include <map>
#include <tuple>
#include <cstdint>
#include <string>
#include <sstream>
#include <algorithm>

namespace rm {

typedef uint64_t St;

struct RRule
{
	int sym; std::vector<St> ch; St par;
	bool operator<(const RRule& o) const
	{
		if (sym != o.sym) return sym < o.sym;
		if (ch != o.ch) return ch < o.ch;
		return par < o.par;
	}
	bool operator==(const RRule& o) const { return sym == o.sym && ch == o.ch && par == o.par; }
};

struct RTA
{
	std::set<St> fin;
	std::set<RRule> rules;
	std::set<St> states() const
	{
		std::set<St> s(fin);
		for (auto& r : rules) { s.insert(r.par); for (St c : r.ch) s.insert(c); }
		return s;
	}
	bool operator==(const RTA& o) const { return fin == o.fin && rules == o.rules; }
	bool operator!=(const RTA& o) const { return !(*this == o); }
};

// ranked alphabet: symbol i has rank[i]
struct Alpha
{
	std::vector<int> rank;
	// optional: symbol i is WRITTEN under the name of symbol alias[i] (one name used with two ranks — legal Timbuk;
	// the explicit encoding keeps (name, rank) pairs apart, the bottom-up symbolic encoding has one code for the name)
	std::vector<int> alias;
	size_t size() const { return rank.size(); }
	int nameOf(int i) const { return (static_cast<size_t>(i) < alias.size() && alias[i] >= 0) ? alias[i] : i; }
	// symbol index of a rule written as s<k> with n children
	int resolve(int k, size_t n) const
	{
		if (alias.empty()) return k;
		if (k >= 0 && static_cast<size_t>(k) < rank.size() && rank[k] == static_cast<int>(n) && nameOf(k) == k) return k;
		for (size_t j = 0; j < rank.size(); ++j) if (nameOf(static_cast<int>(j)) == k && rank[j] == static_cast<int>(n)) return static_cast<int>(j);
		return k;
	}
};

typedef std::vector<uint64_t> MTuple; // one bit mask per automaton

struct Joint
{
	std::vector<MTuple> reach;        // all reachable vectors of macro-states
	std::vector<uint64_t> finMask;    // per automaton: mask of final states
	bool capped = false;              // too many vectors or > 64 states: no statement possible
	// per automaton: state -> bit
	std::vector<std::map<St, int>> bit;

	bool acc(const MTuple& m, size_t i) const { return (m[i] & finMask[i]) != 0; }
};

// Least set of vectors (S1..Sn) such that some tree over `al` reaches exactly Si in Ai.
// Rules whose symbol is outside `al` or whose arity differs from the rank are not usable by
// any tree over `al` and are ignored.
inline Joint jointReach(const std::vector<const RTA*>& auts, const Alpha& al, size_t cap = 20000)
{
	Joint J; size_t n = auts.size();
	J.bit.resize(n); J.finMask.assign(n, 0);
	struct DR { int sym; std::vector<int> ch; int par; };
	std::vector<std::vector<std::vector<DR>>> idx(n, std::vector<std::vector<DR>>(al.rank.size()));
	for (size_t i = 0; i < n; ++i)
	{
		auto& bm = J.bit[i];
		for (St s : auts[i]->states()) { int b = static_cast<int>(bm.size()); bm[s] = b; }
		if (bm.size() > 64) { J.capped = true; return J; }
		for (St f : auts[i]->fin) J.finMask[i] |= 1ull << bm[f];
		for (auto& r : auts[i]->rules)
		{
			if (r.sym < 0 || r.sym >= static_cast<int>(al.rank.size()) || static_cast<int>(r.ch.size()) != al.rank[r.sym]) continue;
			DR d; d.sym = r.sym; d.par = bm[r.par]; for (St c : r.ch) d.ch.push_back(bm[c]);
			idx[i][r.sym].push_back(d);
		}
	}
	std::set<MTuple> seen;
	std::vector<MTuple>& list = J.reach;
	auto add = [&](const MTuple& m) { if (seen.insert(m).second) list.push_back(m); };
	size_t processedUpTo = 0; bool first = true;
	while (first || processedUpTo < list.size())
	{
		first = false;
		size_t cur = list.size();
		for (size_t f = 0; f < al.rank.size(); ++f)
		{
			int k = al.rank[f];
			if (k < 0) continue; // symbol number not in the alphabet
			if (k == 0)
			{
				if (processedUpTo != 0) continue;
				MTuple m(n, 0);
				for (size_t i = 0; i < n; ++i) for (auto& r : idx[i][f]) m[i] |= 1ull << r.par;
				add(m); continue;
			}
			if (cur == 0) continue;
			std::vector<size_t> ix(k, 0);
			while (true)
			{
				bool hasNew = false;
				for (int j = 0; j < k; ++j) if (ix[j] >= processedUpTo) hasNew = true;
				if (hasNew)
				{
					MTuple m(n, 0);
					for (size_t i = 0; i < n; ++i) for (auto& r : idx[i][f])
					{
						bool ok = true;
						for (int j = 0; j < k; ++j) if (!((list[ix[j]][i] >> r.ch[j]) & 1)) { ok = false; break; }
						if (ok) m[i] |= 1ull << r.par;
					}
					add(m);
					if (list.size() > cap) { J.capped = true; return J; }
				}
				int j = 0; while (j < k && ++ix[j] == cur) { ix[j] = 0; ++j; }
				if (j == k) break;
			}
		}
		processedUpTo = cur;
	}
	return J;
}

// -1 inconclusive, 0 not included, 1 included
inline int refIncl(const RTA& a, const RTA& b, const Alpha& al, size_t cap = 20000)
{
	Joint J = jointReach({&a, &b}, al, cap); if (J.capped) return -1;
	for (auto& m : J.reach) if (J.acc(m, 0) && !J.acc(m, 1)) return 0;
	return 1;
}
inline int refEmpty(const RTA& a, const Alpha& al, size_t cap = 20000)
{
	Joint J = jointReach({&a}, al, cap); if (J.capped) return -1;
	for (auto& m : J.reach) if (J.acc(m, 0)) return 0;
	return 1;
}
// bit 0: some tree in A \ B, bit 1: some tree in B \ A; -1 inconclusive
inline int cmpLang(const RTA& a, const RTA& b, const Alpha& al, size_t cap = 20000)
{
	Joint J = jointReach({&a, &b}, al, cap); if (J.capped) return -1;
	int res = 0;
	for (auto& m : J.reach) { bool xa = J.acc(m, 0), xb = J.acc(m, 1); if (xa && !xb) res |= 1; if (xb && !xa) res |= 2; }
	return res;
}
// R = A op B  (isUnion: op = ∪, else ∩): 1 exact, 0 not, -1 inconclusive
inline int checkBin(const RTA& a, const RTA& b, const RTA& r, const Alpha& al, bool isUnion, size_t cap = 20000)
{
	Joint J = jointReach({&a, &b, &r}, al, cap); if (J.capped) return -1;
	for (auto& m : J.reach)
	{
		bool xa = J.acc(m, 0), xb = J.acc(m, 1), xr = J.acc(m, 2);
		if (xr != (isUnion ? (xa || xb) : (xa && xb))) return 0;
	}
	return 1;
}

// alphabet induced by the rules of some automata: symbol numbers must be used with one rank
// (returns false if a symbol number occurs with two arities)
inline bool inducedAlpha(const std::vector<const RTA*>& auts, Alpha& al)
{
	std::map<int, int> rk; bool ok = true;
	for (auto a : auts) for (auto& r : a->rules)
	{
		auto p = rk.insert(std::make_pair(r.sym, static_cast<int>(r.ch.size())));
		if (!p.second && p.first->second != static_cast<int>(r.ch.size())) ok = false;
	}
	int mx = -1; for (auto& p : rk) mx = std::max(mx, p.first);
	al.rank.assign(mx + 1, -1);             // rank -1: symbol absent (no rule can match)
	for (auto& p : rk) al.rank[p.first] = p.second;
	return ok;
}

// rename the states of an automaton to 0..n-1 (order of St values); returns the map
inline RTA densify(const RTA& a, std::map<St, St>* out = nullptr)
{
	std::map<St, St> m; for (St s : a.states()) { St v = m.size(); m[s] = v; }
	RTA r; for (St f : a.fin) r.fin.insert(m[f]);
	for (auto& t : a.rules) { RRule q; q.sym = t.sym; q.par = m[t.par]; for (St c : t.ch) q.ch.push_back(m[c]); r.rules.insert(q); }
	if (out) *out = m;
	return r;
}
inline RTA mapStates(const RTA& a, const std::map<St, St>& m)
{
	RTA r; for (St f : a.fin) r.fin.insert(m.at(f));
	for (auto& t : a.rules) { RRule q; q.sym = t.sym; q.par = m.at(t.par); for (St c : t.ch) q.ch.push_back(m.at(c)); r.rules.insert(q); }
	return r;
}

typedef std::vector<std::vector<bool>> Rel;

// Greatest relation R with: q R r  ⇒ every rule a(q1..qk)->q is answered by a rule
// a(r1..rk)->r with qi R ri.  States are 0..n-1.
inline Rel naiveDown(const RTA& a, int n)
{
	// rules indexed by parent (the fixpoint itself stays the naive pair-deletion loop)
	std::vector<std::vector<const RRule*>> byPar(n);
	for (auto& t : a.rules) byPar[t.par].push_back(&t);
	Rel R(n, std::vector<bool>(n, true)); bool ch = true;
	while (ch)
	{
		ch = false;
		for (int q = 0; q < n; ++q) for (int r = 0; r < n; ++r) if (R[q][r])
		{
			bool ok = true;
			for (const RRule* t : byPar[q])
			{
				bool ans = false;
				for (const RRule* u : byPar[r]) if (u->sym == t->sym && u->ch.size() == t->ch.size())
				{
					bool all = true;
					for (size_t i = 0; i < t->ch.size(); ++i) if (!R[t->ch[i]][u->ch[i]]) { all = false; break; }
					if (all) { ans = true; break; }
				}
				if (!ans) { ok = false; break; }
			}
			if (!ok) { R[q][r] = false; ch = true; }
		}
	}
	return R;
}

// Greatest relation R with: q R r ⇒ (q final ⇒ r final) and every rule using q at child
// position i is answered by a rule using r at position i with identical siblings and a
// related parent.
inline Rel naiveUp(const RTA& a, int n)
{
	// occurrences indexed by child state: (rule, position)
	std::vector<std::vector<std::pair<const RRule*, size_t>>> occ(n);
	for (auto& t : a.rules) for (size_t i = 0; i < t.ch.size(); ++i) occ[t.ch[i]].push_back(std::make_pair(&t, i));
	Rel R(n, std::vector<bool>(n, true));
	for (int q = 0; q < n; ++q) for (int r = 0; r < n; ++r) if (a.fin.count(q) && !a.fin.count(r)) R[q][r] = false;
	bool ch = true;
	while (ch)
	{
		ch = false;
		for (int q = 0; q < n; ++q) for (int r = 0; r < n; ++r) if (R[q][r])
		{
			bool ok = true;
			for (auto& to : occ[q])
			{
				const RRule* t = to.first; size_t i = to.second; bool ans = false;
				for (auto& uo : occ[r]) if (uo.second == i)
				{
					const RRule* u = uo.first;
					if (u->sym != t->sym || u->ch.size() != t->ch.size() || !R[t->par][u->par]) continue;
					bool same = true;
					for (size_t j = 0; j < t->ch.size(); ++j) if (j != i && t->ch[j] != u->ch[j]) { same = false; break; }
					if (same) { ans = true; break; }
				}
				if (!ans) { ok = false; break; }
			}
			if (!ok) { R[q][r] = false; ch = true; }
		}
	}
	return R;
}

// productive states / useful states of an RTA (structural, no alphabet needed)
inline std::set<St> productive(const RTA& a)
{
	std::set<St> prod; bool chg = true;
	while (chg)
	{
		chg = false;
		for (auto& r : a.rules)
		{
			bool all = true; for (St c : r.ch) if (!prod.count(c)) { all = false; break; }
			if (all && prod.insert(r.par).second) chg = true;
		}
	}
	return prod;
}
// states reachable top-down from a final state (through all rules)
inline std::set<St> reachableTD(const RTA& a)
{
	std::set<St> reach(a.fin); bool chg = true;
	while (chg)
	{
		chg = false;
		for (auto& r : a.rules) if (reach.count(r.par)) for (St c : r.ch) if (reach.insert(c).second) chg = true;
	}
	return reach;
}
// states that take part in some accepting run
inline std::set<St> useful(const RTA& a)
{
	std::set<St> prod = productive(a), rr;
	for (St f : a.fin) if (prod.count(f)) rr.insert(f);
	bool chg = true;
	while (chg)
	{
		chg = false;
		for (auto& r : a.rules) if (rr.count(r.par))
		{
			bool all = true; for (St c : r.ch) if (!prod.count(c)) { all = false; break; }
			if (all) for (St c : r.ch) if (rr.insert(c).second) chg = true;
		}
	}
	return rr;
}
// trim by the reference model (used where the library's own trimming must not be trusted)
inline RTA trimRM(const RTA& a)
{
	std::set<St> u = useful(a); RTA r;
	for (St f : a.fin) if (u.count(f)) r.fin.insert(f);
	for (auto& t : a.rules)
	{
		bool ok = u.count(t.par) != 0; for (St c : t.ch) if (!u.count(c)) ok = false;
		if (ok) r.rules.insert(t);
	}
	return r;
}

inline std::string toTimbuk(const RTA& a, const Alpha& al, const std::string& name = "A", const char* stPrefix = "q")
{
	std::ostringstream os; os << "Ops";
	for (size_t i = 0; i < al.rank.size(); ++i) if (al.rank[i] >= 0) os << " s" << al.nameOf(static_cast<int>(i)) << ":" << al.rank[i];
	os << "\nAutomaton " << name << "\nStates";
	for (St s : a.states()) os << " " << stPrefix << s;
	os << "\nFinal States"; for (St f : a.fin) os << " " << stPrefix << f;
	os << "\nTransitions\n";
	for (auto& r : a.rules)
	{
		os << "s" << al.nameOf(r.sym);
		if (!r.ch.empty()) { os << "("; for (size_t j = 0; j < r.ch.size(); ++j) { if (j) os << ","; os << stPrefix << r.ch[j]; } os << ")"; }
		os << " -> " << stPrefix << r.par << "\n";
	}
	return os.str();
}

// ---------------------------------------------------------------- word automata

struct RFA
{
	std::set<St> start, fin;
	std::set<std::tuple<St, int, St>> tr; // (src, sym, dst)
	std::set<St> states() const
	{
		std::set<St> s(start); s.insert(fin.begin(), fin.end());
		for (auto& t : tr) { s.insert(std::get<0>(t)); s.insert(std::get<2>(t)); }
		return s;
	}
	bool operator==(const RFA& o) const { return start == o.start && fin == o.fin && tr == o.tr; }
};

struct JointW
{
	std::vector<MTuple> reach; std::vector<uint64_t> finMask; bool capped = false;
	bool acc(const MTuple& m, size_t i) const { return (m[i] & finMask[i]) != 0; }
};

inline JointW jointWord(const std::vector<const RFA*>& as, int nsym, size_t cap = 200000)
{
	JointW J; size_t n = as.size(); J.finMask.assign(n, 0);
	std::vector<std::map<St, int>> bit(n);
	struct E { int s, a, d; };
	std::vector<std::vector<E>> ed(n);
	MTuple init(n, 0);
	for (size_t i = 0; i < n; ++i)
	{
		for (St s : as[i]->states()) { int b = static_cast<int>(bit[i].size()); bit[i][s] = b; }
		if (bit[i].size() > 64) { J.capped = true; return J; }
		for (St f : as[i]->fin) J.finMask[i] |= 1ull << bit[i][f];
		for (St s : as[i]->start) init[i] |= 1ull << bit[i][s];
		for (auto& t : as[i]->tr) { E e; e.s = bit[i][std::get<0>(t)]; e.a = std::get<1>(t); e.d = bit[i][std::get<2>(t)]; ed[i].push_back(e); }
	}
	std::set<MTuple> seen; std::vector<MTuple> wl;
	seen.insert(init); wl.push_back(init); J.reach.push_back(init);
	while (!wl.empty())
	{
		MTuple m = wl.back(); wl.pop_back();
		for (int a = 0; a < nsym; ++a)
		{
			MTuple nx(n, 0);
			for (size_t i = 0; i < n; ++i) for (auto& e : ed[i]) if (e.a == a && ((m[i] >> e.s) & 1)) nx[i] |= 1ull << e.d;
			if (seen.insert(nx).second) { wl.push_back(nx); J.reach.push_back(nx); if (J.reach.size() > cap) { J.capped = true; return J; } }
		}
	}
	return J;
}

inline RFA mirror(const RFA& a)
{
	RFA r; r.start = a.fin; r.fin = a.start;
	for (auto& t : a.tr) r.tr.insert(std::make_tuple(std::get<2>(t), std::get<1>(t), std::get<0>(t)));
	return r;
}

} // namespace rm
