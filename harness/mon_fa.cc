// Differential monitors for nondeterministic finite word automata (ExplicitFiniteAut).
//   C09: CheckInclusion — antichains, congruence depth-first, congruence breadth-first,
//        on raw operands (both numbered from 0, as the loader produces them) and on
//        operands pre-sanitised by the caller
//   C10: Union, UnionDisjointStates, Intersection, Reverse, RemoveUnreachableStates,
//        RemoveUselessStates, GetCandidateTree
// Oracle: joint subset construction on words (refmodel.hh). Results are observed through
// DumpToString (the only read API of this class).
#include "vata_util.hh"
#include "gen.hh"

#ifdef LIBVATA_VERIF
#  include "util/verif_hooks.hh"
#  define HAVE_VERIF_HOOKS 1
#endif

using namespace vu;
static vh::Run* R;
static long auditReports = 0; static std::string auditFirst;
#ifdef HAVE_VERIF_HOOKS
static void onAudit(const char* site, const char* detail) { if (auditReports++ == 0) auditFirst = std::string(site) + ": " + detail; }
#endif

// G1-word: all NFAs with <= 2 states, <= 3 edges over 2 symbols and any start/final sets
static RFA g1word(uint64_t i)
{
	static std::vector<std::vector<int>> subsets;
	if (subsets.empty())
	{
		subsets.push_back({});
		for (int a = 0; a < 8; ++a) { subsets.push_back({a}); for (int b = a + 1; b < 8; ++b) { subsets.push_back({a, b}); for (int c = b + 1; c < 8; ++c) subsets.push_back({a, b, c}); } }
	}
	RFA r; uint64_t sm = i & 3, fm = (i >> 2) & 3; const auto& sub = subsets[(i >> 4) % subsets.size()];
	for (int s = 0; s < 2; ++s) { if ((sm >> s) & 1) r.start.insert(s); if ((fm >> s) & 1) r.fin.insert(s); }
	for (int e : sub) r.tr.insert(std::make_tuple(static_cast<St>(e & 1), (e >> 1) & 1, static_cast<St>((e >> 2) & 1)));
	return r;
}
static const uint64_t G1WORD = 93 * 16;

// ---------------------------------------------------------------- G4: cut-downs of the shipped ARMC NFAs
static std::vector<RFA>& faCorpus()
{
	static std::vector<RFA> c; static bool loaded = false; if (loaded) return c; loaded = true;
	const char* names[] = {"0", "1", "10", "1072", "1073", "1074", "1075", "11", "12", "13", "14", "15"};
	for (auto n : names)
	{
		std::string txt = slurpFile(std::string("/repo/tests/fa_timbuk_armc/armcNFA_inclTest_") + n); if (txt.empty() || txt.size() > 3000000) continue;
		int ns; std::vector<RFA> auts; if (parseCaseTextFA(txt, ns, auts) >= 1 && !auts[0].tr.empty()) c.push_back(auts[0]);
	}
	return c;
}
// forward cut: the k states found first from `from`; finals = original finals inside the cut or the state found last
static RFA cutFA(vh::Rng& g, const RFA& src, St from, size_t k, const std::map<St, std::vector<std::pair<int, St>>>& out)
{
	std::set<St> in{from}; std::vector<St> q{from}; St last = from;
	for (size_t i = 0; i < q.size() && in.size() < k; ++i)
	{
		auto it = out.find(q[i]); if (it == out.end()) continue; auto es = it->second; std::shuffle(es.begin(), es.end(), g);
		for (auto& e : es) if (in.size() < k && in.insert(e.second).second) { q.push_back(e.second); last = e.second; }
	}
	RFA r; r.start.insert(from);
	for (St s : in) { auto it = out.find(s); if (it == out.end()) continue; for (auto& e : it->second) if (in.count(e.second)) r.tr.insert(std::make_tuple(s, e.first, e.second)); }
	for (St s : in) if (src.fin.count(s)) r.fin.insert(s);
	if (r.fin.empty() || g.chance(1, 3)) r.fin.insert(last);
	return r;
}
static bool genCorpusPairFA(vh::Rng& g, int& nsym, RFA& a, RFA& b, std::string& kind)
{
	auto& c = faCorpus(); if (c.empty()) return false;
	const RFA& x = g.pick(c);
	std::map<St, std::vector<std::pair<int, St>>> out; for (auto& t : x.tr) out[std::get<0>(t)].push_back(std::make_pair(std::get<1>(t), std::get<2>(t)));
	std::set<St> ss = x.states(); std::vector<St> st(ss.begin(), ss.end());
	St from = (!x.start.empty() && g.chance(1, 2)) ? *x.start.begin() : st[g.below(st.size())];
	a = cutFA(g, x, from, static_cast<size_t>(g.range(3, 9)), out);
	int k = static_cast<int>(g.below(3));
	if (k == 0) { b = cutFA(g, x, from, static_cast<size_t>(g.range(4, 12)), out); kind = "G4-armc-same-start"; }
	else if (k == 1) { b = cutFA(g, x, st[g.below(st.size())], static_cast<size_t>(g.range(3, 10)), out); kind = "G4-armc-other"; }
	else { b = a; if (!b.tr.empty() && g.chance(1, 2)) { auto it = b.tr.begin(); std::advance(it, g.below(b.tr.size())); b.tr.erase(it); } else { RFA e = cutFA(g, x, st[g.below(st.size())], 4, out); b.tr.insert(e.tr.begin(), e.tr.end()); b.start.insert(e.start.begin(), e.start.end()); b.fin.insert(e.fin.begin(), e.fin.end()); } kind = "G4-armc-mutated"; }
	// densify states and symbols
	auto dens = [](RFA& f, std::map<int, int>& sy) { std::map<St, St> m; for (St s : f.states()) { St v = m.size(); m[s] = v; } RFA r; for (St s : f.start) r.start.insert(m[s]); for (St s : f.fin) r.fin.insert(m[s]);
		for (auto& t : f.tr) { auto it = sy.find(std::get<1>(t)); if (it == sy.end()) it = sy.insert(std::make_pair(std::get<1>(t), static_cast<int>(sy.size()))).first; r.tr.insert(std::make_tuple(m[std::get<0>(t)], it->second, m[std::get<2>(t)])); } f = r; };
	std::map<int, int> sy; dens(a, sy); dens(b, sy); nsym = std::max<int>(1, static_cast<int>(sy.size()));
	return a.states().size() <= 12 && b.states().size() <= 14;
}

static void genPairFARaw(uint64_t idx, vh::Rng& g, int& nsym, RFA& a, RFA& b, std::string& kind);
static void genPairFA(uint64_t idx, vh::Rng& g, int& nsym, RFA& a, RFA& b, std::string& kind)
{
	genPairFARaw(idx, g, nsym, a, b, kind);
	if (!R->inputFile.empty())
	{	// --input FILE: replace the generated pair (shrinker)
		std::vector<RFA> auts; int k = parseCaseTextFA(slurpFile(R->inputFile), nsym, auts);
		if (k < 2) { fprintf(stderr, "cannot parse --input file (two automata needed)\n"); exit(2); }
		a = auts[0]; b = auts[1]; kind = "input-file";
	}
}
static void genPairFARaw(uint64_t idx, vh::Rng& g, int& nsym, RFA& a, RFA& b, std::string& kind)
{
	uint64_t nEx = static_cast<uint64_t>(R->param("exhaustive", 3000));
	int S = static_cast<int>(R->param("S", 8)), T = static_cast<int>(R->param("T", 20));
	if (idx < nEx)
	{
		kind = "G1-word-pair"; nsym = 2; uint64_t k = (idx * 2654435761ull + R->seed * 7919) % (G1WORD * G1WORD);
		a = g1word(k % G1WORD); b = g1word(k / G1WORD); return;
	}
	if (g.below(100) < static_cast<uint64_t>(R->param("corpus_percent", 5)) && genCorpusPairFA(g, nsym, a, b, kind)) return;
	nsym = g.range(1, 3);
	if (g.below(100) < static_cast<uint64_t>(R->param("wide_percent", 12)))
	{	// (near-)universality questions: a tiny smaller automaton against a dense, highly nondeterministic bigger
		// one — many pending pairs share the smaller state and differ only in equally large macro-states
		// (work-list ordering and tie-breaks, antichain pruning; seeded changes m20, m61)
		kind = "G3-wide"; nsym = g.range(2, 3);
		int na = g.range(1, 2); a = RFA();
		for (int q = 0; q < na; ++q) for (int sy = 0; sy < nsym; ++sy) if (na == 1 || g.chance(3, 4)) a.tr.insert(std::make_tuple(St(q), sy, St(g.below(na))));
		a.start.insert(0); a.fin.insert(g.below(na)); if (g.chance(1, 2)) a.fin.insert(0);
		int nb = g.range(4, S + 2); b = RFA();
		for (int q = 0; q < nb; ++q) for (int sy = 0; sy < nsym; ++sy) { int d = g.range(g.chance(1, 6) ? 0 : 1, 3); for (int i = 0; i < d; ++i) b.tr.insert(std::make_tuple(St(q), sy, St(g.below(nb)))); }
		int fpct = g.range(40, 95); for (int q = 0; q < nb; ++q) if (g.below(100) < static_cast<uint64_t>(fpct)) b.fin.insert(q);
		int nst = g.range(1, 3); for (int i = 0; i < nst; ++i) b.start.insert(g.below(nb));
		if (b.fin.empty()) b.fin.insert(0);
		return;
	}
	int k = static_cast<int>(g.below(10));
	if (k < 2) { kind = "G2-random"; a = gen::randFA(g, S, T, nsym); b = gen::randFA(g, S, T, nsym); }
	else if (k < 5) { kind = "G2-live"; a = gen::randLiveFA(g, S, T, nsym); b = gen::randLiveFA(g, S, T + 4, nsym); }
	else if (k < 8)
	{	// related: B = A + extra edges / states (included), possibly mutated afterwards
		kind = "G3-related"; a = gen::randLiveFA(g, S, T, nsym); b = a;
		int extra = g.range(0, 4); St n = 2; for (St q : b.states()) n = std::max(n, q + 2);
		for (int i = 0; i < extra; ++i) b.tr.insert(std::make_tuple(g.below(n), static_cast<int>(g.below(nsym)), g.below(n)));
		int m = static_cast<int>(g.below(4));
		if (m == 1 && !b.tr.empty()) { auto it = b.tr.begin(); std::advance(it, g.below(b.tr.size())); b.tr.erase(it); kind = "G5-bigger-lost-edge"; }
		else if (m == 2 && !b.fin.empty()) { b.fin.erase(b.fin.begin()); b.fin.insert(g.below(n)); kind = "G5-bigger-final-moved"; }
		else if (m == 3) { a.tr.insert(std::make_tuple(g.below(n), static_cast<int>(g.below(nsym)), g.below(n))); kind = "G5-smaller-extra-edge"; }
		// renumber B so that operands are not state-wise aligned
		if (g.chance(1, 2)) { std::vector<St> p = gen::numbering(g, static_cast<int>(n), 3); RFA c; for (St s : b.start) c.start.insert(p[s]); for (St s : b.fin) c.fin.insert(p[s]); for (auto& t : b.tr) c.tr.insert(std::make_tuple(p[std::get<0>(t)], std::get<1>(t), p[std::get<2>(t)])); b = c; }
	}
	else
	{	// larger searches: the antichain memoisation only matters there
		kind = "G3-large"; nsym = 2; a = gen::randLiveFA(g, S + 2, T + 6, nsym); b = gen::randLiveFA(g, S + 2, T + 10, nsym);
		{ std::set<St> bs = b.states(); std::vector<St> bv(bs.begin(), bs.end()); for (St s : a.start) b.start.insert(bv[s % bv.size()]); }
	}
}

static FA loadFA(const RFA& a, int nsym, const char* nm) { FA x; x.LoadFromString(parser(), faToTimbuk(a, nsym, nm)); return x; }
static FA loadFA(const RFA& a, int nsym, const char* nm, SharedDict& sd, const char* q) { FA x; x.LoadFromString(parser(), faToTimbuk(a, nsym, nm, q), sd.tr); return x; }

// forked operands: Y starts as a copy of X (sharing its transition storage) and gets 1-3 extra
// transitions / final states in place; b is what Y must denote afterwards
static bool forkFA(vh::Rng& g, const RFA& a, int nsym, FA& X, FA& Y, RFA& b)
{
	static std::vector<size_t> syms;
	if (static_cast<int>(syms.size()) < nsym) { FA tmp; auto tr = tmp.GetAlphabet()->GetSymbolTransl(); for (int i = static_cast<int>(syms.size()); i < nsym; ++i) syms.push_back((*tr)("a" + std::to_string(i))); }
	SharedDict sd; X = loadFA(a, nsym, "A", sd, "q"); { FA c(X); Y = c; } b = a;
	std::vector<std::pair<St, size_t>> st;
	for (St q : a.states()) { auto it = sd.d.FindFwd("q" + vh::str(q)); if (it != sd.d.EndFwd()) st.push_back(std::make_pair(q, it->second)); }
	if (st.empty()) return false;
	int n = g.range(1, 3);
	for (int i = 0; i < n; ++i)
	{
		if (g.chance(1, 4)) { auto f = st[g.below(st.size())]; Y.SetStateFinal(f.second); b.fin.insert(f.first); }
		else { auto l = st[g.below(st.size())], r = st[g.below(st.size())]; int sy = static_cast<int>(g.below(nsym)); Y.AddTransition(l.second, syms[sy], r.second); b.tr.insert(std::make_tuple(l.first, sy, r.first)); }
	}
	return true;
}

// ======================================================================= C09
static void caseC09(uint64_t idx, vh::Rng& g)
{
	int nsym; RFA a, b; std::string kind; genPairFA(idx, g, nsym, a, b, kind);
	std::string text = faToTimbuk(a, nsym, "A") + faToTimbuk(b, nsym, "B");
	R->desc(text); R->count("gen:" + kind);
	rm::JointW J = rm::jointWord({&a, &b}, nsym);
	if (J.capped) { R->inconclusive("rm-cap"); return; }
	bool ref = true, neA = false, neB = false;
	for (auto& m : J.reach) { if (J.acc(m, 0) && !J.acc(m, 1)) ref = false; if (J.acc(m, 0)) neA = true; if (J.acc(m, 1)) neB = true; }
	R->count(ref ? "verdict:included" : "verdict:not-included");
	if (neA && neB)
	{
		R->count(ref ? "nontrivial:included" : "nontrivial:not-included");
		R->nontrivial(vh::fnv(vh::str(nsym) + canon(a) + "|" + canon(b)));
		if (R->wantSample()) R->sample(kind + (ref ? " [included]\n" : " [not included]\n") + text);
	}
	struct V { const char* n; InclParam::e_algorithm alg; InclParam::e_search_order ord; } vs[] = {
		{"antichains", InclParam::e_algorithm::antichains, InclParam::e_search_order::depth},
		{"congr-depth", InclParam::e_algorithm::congruences, InclParam::e_search_order::depth},
		{"congr-breadth", InclParam::e_algorithm::congruences, InclParam::e_search_order::breadth}};
	for (auto& v : vs) for (int pre = 0; pre < 2; ++pre)
	{
		std::string sel = std::string(v.n) + (pre ? "/presanitised" : "/raw");
		R->phase(sel); R->count("runs:" + sel);
		try
		{
			FA x = loadFA(a, nsym, "A"), y = loadFA(b, nsym, "B");
			InclParam ip; ip.SetAlgorithm(v.alg); ip.SetSearchOrder(v.ord);
			if (pre) AutBase::SanitizeAutsForInclusion(x, y);
			bool r = FA::CheckInclusion(x, y, ip);
			if (r != ref) R->violation("C09/" + sel + (r ? "/falsely-included" : "/falsely-rejected"), std::string("library: ") + (r ? "included" : "not included"));
			if (auditReports) { R->violation("C09/" + sel + "/memo-audit", "a memoised subset test differs from the recomputed one: " + auditFirst + " (" + vh::str(auditReports) + " report(s))"); auditReports = 0; auditFirst.clear(); }
		}
		catch (std::exception& e) { R->violation("C09/" + sel + "/exception", e.what()); }
	}
	if (R->param("simsel", 1))
	{	// simulation-assisted selections (ANTICHAINS_SIM, CONGR_DEPTH_SIM). The library cannot compute a
		// simulation of a word automaton itself (ComputeSimulation is unimplemented), so the caller has to
		// supply the preorder: the identity, and the greatest forward simulation of the disjoint union
		// computed here. The operands are loaded through one dictionary: state numbers are dense,
		// disjoint and known; as in the CLI, the congruence algorithm gets union(A,B) as smaller operand.
		try
		{
			SharedDict sd; FA x = loadFA(a, nsym, "A", sd, "p"), y = loadFA(b, nsym, "B", sd, "r");
			size_t n = sd.cnt;
			auto num = [&](const char* q, St s) -> long { auto it = sd.d.FindFwd(std::string(q) + vh::str(s)); return it == sd.d.EndFwd() ? -1 : static_cast<long>(it->second); };
			std::vector<char> fin(n, 0); std::vector<std::vector<std::pair<int, size_t>>> out(n);
			auto add = [&](const RFA& f, const char* q) {
				for (St s : f.fin) { long v = num(q, s); if (v >= 0) fin[v] = 1; }
				for (auto& t : f.tr) { long s = num(q, std::get<0>(t)), d = num(q, std::get<2>(t)); if (s >= 0 && d >= 0) out[s].push_back(std::make_pair(std::get<1>(t), static_cast<size_t>(d))); } };
			add(a, "p"); add(b, "r");
			std::vector<char> rel(n * n, 0);
			for (size_t q = 0; q < n; ++q) for (size_t r = 0; r < n; ++r) rel[q * n + r] = (!fin[q] || fin[r]);
			for (bool ch = true; ch;)
			{
				ch = false;
				for (size_t q = 0; q < n; ++q) for (size_t r = 0; r < n; ++r) if (rel[q * n + r])
				{
					bool ok = true;
					for (auto& e : out[q]) { bool m = false; for (auto& f : out[r]) if (f.first == e.first && rel[e.second * n + f.second]) { m = true; break; } if (!m) { ok = false; break; } }
					if (!ok) { rel[q * n + r] = 0; ch = true; }
				}
			}
			size_t pairs = 0; for (size_t q = 0; q < n; ++q) for (size_t r = 0; r < n; ++r) if (q != r && rel[q * n + r]) ++pairs;
			if (pairs) R->count("simsel:forward-simulation-nontrivial");
			for (int mode = 0; mode < 2; ++mode) for (int alg = 0; alg < 2; ++alg)
			{
				std::string sel = std::string(alg ? "congr-depth" : "antichains") + (mode ? "+sim(forward)" : "+sim(identity)");
				R->phase(sel); R->count("runs:" + sel);
				Util::BinaryRelation br(n, false);
				for (size_t q = 0; q < n; ++q) for (size_t r = 0; r < n; ++r) if (mode ? rel[q * n + r] : (q == r)) br.set(q, r, true);
				Util::DiscontBinaryRelation::DictType dict; for (size_t i = 0; i < n; ++i) dict.insert(std::make_pair(i, i));
				AutBase::StateDiscontBinaryRelation sim(br, dict);
				InclParam ip; ip.SetAlgorithm(alg ? InclParam::e_algorithm::congruences : InclParam::e_algorithm::antichains);
				ip.SetSearchOrder(InclParam::e_search_order::depth); ip.SetUseSimulation(true); ip.SetSimulation(&sim);
				bool r = alg ? FA::CheckInclusion(FA::UnionDisjointStates(x, y), y, ip) : FA::CheckInclusion(x, y, ip);
				if (r != ref) R->violation("C09/" + sel + (r ? "/falsely-included" : "/falsely-rejected"), std::string("library: ") + (r ? "included" : "not included"));
				if (auditReports) { R->violation("C09/" + sel + "/memo-audit", "a memoised subset test differs from the recomputed one: " + auditFirst + " (" + vh::str(auditReports) + " report(s))"); auditReports = 0; auditFirst.clear(); }
			}
		}
		catch (std::exception& e) { R->violation("C09/sim-selections/exception", e.what()); }
	}
	if (idx % static_cast<uint64_t>(R->param("cli_every", 200)) == 0)
	{	// the same pair through `vata -r expl_fa`
		std::string fa = R->outdir + "/" + R->tag + ".A.txt", fb = R->outdir + "/" + R->tag + ".B.txt"; writeFile(fa, faToTimbuk(a, nsym, "A")); writeFile(fb, faToTimbuk(b, nsym, "B"));
		const char* opts[][2] = {{"alg=antichains", "cli/antichains"}, {"alg=congr,order=depth", "cli/congr-depth"}, {"alg=congr,order=breadth", "cli/congr-breadth"}};
		for (auto& o : opts)
		{
			R->phase(o[1]); R->count(std::string("runs:") + o[1]); int rc = 0; std::string out = runVata(std::string("-r expl_fa -o ") + o[0] + " incl " + fa + " " + fb, rc);
			if (rc != 0 || (out.compare(0, 1, "1") != 0 && out.compare(0, 1, "0") != 0)) R->violation(std::string("C09/") + o[1] + "/cli-failed", "exit " + vh::str(rc) + ": " + out.substr(0, 300));
			else if ((out[0] == '1') != ref) R->violation(std::string("C09/") + o[1] + (out[0] == '1' ? "/falsely-included" : "/falsely-rejected"), "");
		}
	}
	if (g.chance(1, 6))
	{	// forked operands: a copy of A extended in place against A itself, both directions
		try
		{
			FA X, Y; RFA bf;
			if (forkFA(g, a, nsym, X, Y, bf))
			{
				R->count("forked-operands"); R->extraEvaluation();
				rm::JointW K = rm::jointWord({&bf, &a}, nsym); bool r1 = true; if (!K.capped) { for (auto& m : K.reach) if (K.acc(m, 0) && !K.acc(m, 1)) r1 = false; }
				for (auto& v : vs)
				{
					std::string sel = std::string(v.n) + "/forked"; R->phase(sel); R->count("runs:" + sel);
					InclParam ip; ip.SetAlgorithm(v.alg); ip.SetSearchOrder(v.ord);
					bool r = FA::CheckInclusion(X, Y, ip); if (!r) R->violation("C09/" + sel + "/falsely-rejected", "A <= copy of A with extra transitions / final states");
					if (!K.capped) { bool q = FA::CheckInclusion(Y, X, ip); if (q != r1) R->violation("C09/" + sel + (q ? "/falsely-included" : "/falsely-rejected"), "extended copy of A against A; extended copy:\n" + faToTimbuk(bf, nsym, "A'")); }
					auditReports = 0; auditFirst.clear();
				}
			}
		}
		catch (std::exception& e) { R->violation("C09/forked/exception", e.what()); }
	}
	R->phase("default-params");
	try { FA x = loadFA(a, nsym, "A"), y = loadFA(b, nsym, "B"); bool r = FA::CheckInclusion(x, y); if (r != ref) R->violation(std::string("C09/default-params") + (r ? "/falsely-included" : "/falsely-rejected"), ""); auditReports = 0; auditFirst.clear(); }
	catch (std::exception& e) { R->violation("C09/default-params/exception", e.what()); }
}

// ======================================================================= C10
static void caseC10(uint64_t idx, vh::Rng& g)
{
	int nsym; RFA a, b; std::string kind; genPairFA(idx, g, nsym, a, b, kind);
	std::string text = faToTimbuk(a, nsym, "A") + faToTimbuk(b, nsym, "B");
	R->desc(text); R->count("gen:" + kind);
	bool eps = false; for (St s : a.start) if (a.fin.count(s)) eps = true;
	{
		rm::JointW J = rm::jointWord({&a}, nsym); bool ne = false; for (auto& m : J.reach) if (J.acc(m, 0)) ne = true;
		if (eps) R->count("shape:accepts-empty-word"); if (a.start.size() >= 2) R->count("shape:several-start-states");
		if (eps || a.start.size() >= 2 || ne) { R->nontrivial(vh::fnv(vh::str(nsym) + canon(a) + "|" + canon(b))); if (R->wantSample()) R->sample(kind + "\n" + text); }
	}
	auto bin = [&](const char* op, const RFA& x, const RFA& y, const RFA& res, bool isUnion) {
		rm::JointW K = rm::jointWord({&x, &y, &res}, nsym); if (K.capped) { R->inconclusive("rm-cap"); return; }
		for (auto& m : K.reach) { bool xa = K.acc(m, 0), xb = K.acc(m, 1), xr = K.acc(m, 2); if (xr != (isUnion ? (xa || xb) : (xa && xb))) { R->violation(std::string("C10/") + op + (xr ? "/accepts-too-much" : "/accepts-too-little"), ""); return; } } };
	auto same = [&](const char* op, const RFA& x, const RFA& res) {
		rm::JointW K = rm::jointWord({&x, &res}, nsym); if (K.capped) { R->inconclusive("rm-cap"); return; }
		for (auto& m : K.reach) if (K.acc(m, 0) != K.acc(m, 1)) { R->violation(std::string("C10/") + op + (K.acc(m, 1) ? "/accepts-too-much" : "/accepts-too-little"), ""); return; } };
	try
	{
		FA A = loadFA(a, nsym, "A"), B = loadFA(b, nsym, "B");
		RFA a0 = faObserve(A), b0 = faObserve(B);
		{ rm::JointW K = rm::jointWord({&a, &a0}, nsym); for (auto& m : K.reach) if (K.acc(m, 0) != K.acc(m, 1)) { R->violation("C10/load/language", "dump of the loaded automaton has another language"); break; } }
		R->phase("Union"); { RFA u = faObserve(FA::Union(A, B)); bin("union", a, b, u, true); }
		R->phase("Union(with maps)"); { AutBase::StateToStateMap ma, mb; int mode = static_cast<int>(g.below(3)); R->count("out-parameter:union-maps"); RFA u = faObserve(mode == 0 ? FA::Union(A, B, &ma, &mb) : mode == 1 ? FA::Union(A, B, &ma, nullptr) : FA::Union(A, B, nullptr, &mb)); bin("union", a, b, u, true); }
		R->phase("UnionDisjointStates");
		{
			SharedDict sd; FA X = loadFA(a, nsym, "A", sd, "p"), Y = loadFA(b, nsym, "B", sd, "r"); RFA x0 = faObserve(X), y0 = faObserve(Y);
			RFA u = faObserve(FA::UnionDisjointStates(X, Y)); bin("uniondisj", a, b, u, true);
			if (!(faObserve(X) == x0) || !(faObserve(Y) == y0)) R->violation("C10/uniondisj/operand-changed", "");
			// the same object X again with another partner that uses Y's state NUMBERS (same names through the same
			// dictionary) but other transitions — "unite A with each candidate" loops do exactly this
			RFA z = b; if (!z.tr.empty()) { auto it = z.tr.begin(); std::advance(it, g.below(z.tr.size())); auto t = *it; z.tr.erase(it); z.tr.insert(std::make_tuple(std::get<0>(t), (std::get<1>(t) + 1) % std::max(1, nsym), std::get<2>(t))); }
			for (auto& t : a.tr) if (g.chance(1, 3)) z.tr.insert(std::make_tuple(std::get<0>(t) % std::max<St>(1, b.states().size()), std::get<1>(t), std::get<2>(t) % std::max<St>(1, b.states().size())));
			std::set<St> bs = b.states(), zs = z.states(); bool sameStates = true; for (St q : zs) if (!bs.count(q)) sameStates = false;
			if (sameStates)
			{
				R->phase("UnionDisjointStates (same lhs object, second partner)"); R->count("uniondisj-second-partner");
				FA Z = loadFA(z, nsym, "Z", sd, "r"); RFA u2 = faObserve(FA::UnionDisjointStates(X, Z)); bin("uniondisj/second-partner", a, z, u2, true);
				RFA u3 = faObserve(FA::UnionDisjointStates(Z, X)); bin("uniondisj/second-partner", a, z, u3, true);
				if (!(faObserve(X) == x0)) R->violation("C10/uniondisj/second-partner/operand-changed", "");
			}
		}
		R->phase("Intersection");
		{ RFA u = faObserve(FA::Intersection(A, B)); bin("isect", a, b, u, false); bool ne = false; { rm::JointW K = rm::jointWord({&u}, nsym); for (auto& m : K.reach) if (K.acc(m, 0)) ne = true; } if (ne) R->count("nonempty-intersection"); }
		R->phase("Intersection(with map)");
		{ AutBase::ProductTranslMap pm; RFA u = faObserve(FA::Intersection(A, B, &pm)); bin("isect", a, b, u, false); }
		R->phase("RemoveUnreachableStates"); { FA x = A; RFA u = faObserve(x.RemoveUnreachableStates()); same("unreach", a, u); }
		R->phase("RemoveUselessStates"); { FA x = A; RFA u = faObserve(x.RemoveUselessStates()); same("useless", a, u); }
		if (g.chance(1, 2))
		{	// the same with the optional out-parameters supplied
			R->count("out-parameter:fa-trimming-maps");
			R->phase("RemoveUnreachableStates(map)"); { FA x = A; AutBase::StateToStateMap m; RFA u = faObserve(x.RemoveUnreachableStates(&m)); same("unreach", a, u); }
			R->phase("RemoveUselessStates(map)"); { FA x = A; AutBase::StateToStateMap m; RFA u = faObserve(x.RemoveUselessStates(&m)); same("useless", a, u); }
			R->phase("Reverse(map)"); { AutBase::StateToStateMap m; RFA u = faObserve(A.Reverse(&m)); same("reverse", rm::mirror(a), u); }
		}
		R->phase("GetCandidateTree");
		{
			RFA u = faObserve(A.GetCandidateTree()); rm::JointW K = rm::jointWord({&a, &u}, nsym); bool ne = false, nea = false, sub = true;
			for (auto& m : K.reach) { if (K.acc(m, 1) && !K.acc(m, 0)) sub = false; if (K.acc(m, 1)) ne = true; if (K.acc(m, 0)) nea = true; }
			if (!sub) R->violation("C10/candidate/not-sublanguage", "");
			if (nea && !ne) R->violation("C10/candidate/empty-witness", "language non-empty, witness empty");
		}
		if (g.chance(1, 3))
		{	// an object that is used, then ASSIGNED another automaton, then used again: whatever the object remembers of
			// its earlier content (side tables, memoised results) must go with the assignment (seeded change m89)
			R->phase("operations on a reassigned object"); R->count("reassigned-object");
			FA w = A; { FA t1 = w.RemoveUselessStates(), t2 = w.RemoveUnreachableStates(), t3 = w.Reverse(), t4 = w.GetCandidateTree(), t5 = FA::Intersection(w, B); (void)t1; (void)t2; (void)t3; (void)t4; (void)t5; }
			if (g.chance(1, 3)) { FA tmp = B; w = std::move(tmp); } else w = B;
			same("reassigned/useless", b, faObserve(w.RemoveUselessStates()));
			same("reassigned/unreach", b, faObserve(w.RemoveUnreachableStates()));
			same("reassigned/reverse", rm::mirror(b), faObserve(w.Reverse()));
			{ RFA u = faObserve(w.GetCandidateTree()); rm::JointW K = rm::jointWord({&b, &u}, nsym); bool ne = false, neb = false, sub = true;
			  for (auto& m : K.reach) { if (K.acc(m, 1) && !K.acc(m, 0)) sub = false; if (K.acc(m, 1)) ne = true; if (K.acc(m, 0)) neb = true; }
			  if (!sub) R->violation("C10/reassigned/candidate/not-sublanguage", ""); if (neb && !ne) R->violation("C10/reassigned/candidate/empty-witness", ""); }
			bin("reassigned/union", b, a, faObserve(FA::Union(w, A)), true); bin("reassigned/isect", b, a, faObserve(FA::Intersection(w, A)), false);
			if (!(faObserve(w) == b0)) R->violation("C10/reassigned/content", "the reassigned object does not dump like the automaton it was assigned");
		}
		// operands unchanged (as dumps)
		if (!(faObserve(A) == a0) || !(faObserve(B) == b0)) R->violation("C10/operand-changed", "");
		if (g.chance(1, 5))
		{	// forked operands: a copy of A extended in place, combined with A itself
			FA X, Y; RFA bf;
			if (forkFA(g, a, nsym, X, Y, bf))
			{
				R->count("forked-operands"); R->extraEvaluation(); RFA x0 = faObserve(X), y0 = faObserve(Y);
				R->phase("forked: load"); same("forked/extended-copy", bf, y0); same("forked/original", a, x0);
				R->phase("forked: Union"); { RFA u = faObserve(FA::Union(X, Y)); bin("forked/union", a, bf, u, true); }
				R->phase("forked: Intersection"); { RFA u = faObserve(FA::Intersection(X, Y)); bin("forked/isect", a, bf, u, false); RFA v = faObserve(FA::Intersection(Y, X)); bin("forked/isect", bf, a, v, false); }
				R->phase("forked: trimming"); { RFA u = faObserve(Y.RemoveUselessStates()); same("forked/useless", bf, u); RFA v = faObserve(Y.RemoveUnreachableStates()); same("forked/unreach", bf, v); RFA w = faObserve(Y.Reverse().Reverse()); same("forked/reverse-reverse", bf, w); }
				if (!(faObserve(X) == x0) || !(faObserve(Y) == y0)) R->violation("C10/forked/operand-changed", "");
			}
		}
		if (g.chance(1, 2))
		{	// second level: the same operations on RESULTS of operations (objects whose internal state has a
			// history); the reference is computed from what the operands' own dumps denote
			R->count("second-level-cases");
			auto derive = [&](int k, std::string& name) -> FA {
				switch (k)
				{
					case 0: name = "useless(A)"; return A.RemoveUselessStates();
					case 1: name = "reverse(A)"; return A.Reverse();
					case 2: name = "isect(A,B)"; return FA::Intersection(A, B);
					case 3: name = "candidate(A)"; return A.GetCandidateTree();
					case 4: name = "union(A,B)"; return FA::Union(A, B);
					case 5: name = "unreach(B)"; return B.RemoveUnreachableStates();
					case 6: name = "reverse(reverse(B))"; return B.Reverse().Reverse();
					default: name = "useless(B)"; return B.RemoveUselessStates();
				} };
			std::string nx, ny; FA X = derive(static_cast<int>(g.below(8)), nx), Y = derive(static_cast<int>(g.below(8)), ny);
			RFA x = faObserve(X), y = faObserve(Y);
			std::string what = "[" + nx + "," + ny + "]"; R->count("second-level:" + nx);
			R->phase("2nd-level Union " + what); { RFA u = faObserve(FA::Union(X, Y)); bin("second-level/union", x, y, u, true); }
			R->phase("2nd-level Intersection " + what); { RFA u = faObserve(FA::Intersection(X, Y)); bin("second-level/isect", x, y, u, false); }
			R->phase("2nd-level Reverse " + what); { RFA u = faObserve(X.Reverse()); same("second-level/reverse", rm::mirror(x), u); }
			R->phase("2nd-level RemoveUselessStates " + what); { RFA u = faObserve(X.RemoveUselessStates()); same("second-level/useless", x, u); }
			R->phase("2nd-level RemoveUnreachableStates " + what); { RFA u = faObserve(Y.RemoveUnreachableStates()); same("second-level/unreach", y, u); }
			R->phase("2nd-level GetCandidateTree " + what);
			{
				RFA u = faObserve(X.GetCandidateTree()); rm::JointW K = rm::jointWord({&x, &u}, nsym); bool ne = false, nea = false, sub = true;
				for (auto& m : K.reach) { if (K.acc(m, 1) && !K.acc(m, 0)) sub = false; if (K.acc(m, 1)) ne = true; if (K.acc(m, 0)) nea = true; }
				if (!K.capped && !sub) R->violation("C10/second-level/candidate/not-sublanguage", what);
				if (!K.capped && nea && !ne) R->violation("C10/second-level/candidate/empty-witness", what);
			}
			R->phase("2nd-level inclusion " + what);
			{	// and inclusion between results (C09's oracle on derived operands): both algorithms, both directions
				rm::JointW K = rm::jointWord({&x, &y}, nsym);
				if (!K.capped)
				{
					bool ref = true; for (auto& m : K.reach) if (K.acc(m, 0) && !K.acc(m, 1)) ref = false;
					InclParam ip; ip.SetAlgorithm(g.chance(1, 2) ? InclParam::e_algorithm::antichains : InclParam::e_algorithm::congruences);
					bool r = FA::CheckInclusion(X, Y, ip); if (r != ref) R->violation(std::string("C10/second-level/inclusion") + (r ? "/falsely-included" : "/falsely-rejected"), what);
				}
			}
			if (!(faObserve(X) == x) || !(faObserve(Y) == y)) R->violation("C10/second-level/operand-changed", what);
		}
		R->phase("Reverse");
		{ FA rv = A.Reverse(); R->phase("Reverse: DumpToString"); RFA u = faObserve(rv); same("reverse", rm::mirror(a), u); }
		if (idx % static_cast<uint64_t>(R->param("cli_every", 200)) == 0)
		{	// the same operations through `vata -r expl_fa load|union|isect|witness [-p|-s]`
			std::string fa = R->outdir + "/" + R->tag + ".A.txt", fb = R->outdir + "/" + R->tag + ".B.txt"; writeFile(fa, faToTimbuk(a, nsym, "A")); writeFile(fb, faToTimbuk(b, nsym, "B"));
			auto run = [&](const std::string& what, const std::string& args, RFA& out) {
				int rc = 0; R->phase("cli " + what); R->count("cli:" + what); std::string txt = runVata("-r expl_fa " + args, rc);
				if (rc != 0) { R->violation("C10/cli/" + what + "/failed", "exit " + vh::str(rc) + ": " + txt.substr(0, 300)); return false; }
				try { std::map<std::string, St> ids; out = faFromDump(txt, ids); } catch (std::exception& e) { R->violation("C10/cli/" + what + "/unparsable-output", e.what()); return false; }
				return true; };
			RFA r;
			if (run("load", "load " + fa, r)) same("cli/load", a, r);
			if (run("union", "union " + fa + " " + fb, r)) bin("cli/union", a, b, r, true);
			if (run("isect", "isect " + fa + " " + fb, r)) bin("cli/isect", a, b, r, false);
			if (run("load-s", "-s load " + fa, r)) same("cli/load-s", a, r);
			if (run("load-p", "-p load " + fa, r)) same("cli/load-p", a, r);
			if (run("isect-s", "-s isect " + fa + " " + fb, r)) bin("cli/isect-s", a, b, r, false);
			if (run("union-s", "-s union " + fa + " " + fb, r)) bin("cli/union-s", a, b, r, true);
			if (run("witness", "witness " + fa, r))
			{
				rm::JointW K = rm::jointWord({&a, &r}, nsym); bool ne = false, nea = false, sub = true;
				for (auto& m : K.reach) { if (K.acc(m, 1) && !K.acc(m, 0)) sub = false; if (K.acc(m, 1)) ne = true; if (K.acc(m, 0)) nea = true; }
				if (!K.capped && !sub) R->violation("C10/cli/witness/not-sublanguage", ""); if (!K.capped && nea && !ne) R->violation("C10/cli/witness/empty-witness", "");
			}
		}
	}
	catch (std::exception& e) { R->violation("C10/exception", e.what()); }
}

int main(int argc, char** argv)
{
	vh::Run run(argc, argv); R = &run;
#ifdef HAVE_VERIF_HOOKS
	VATA::Verif::ReportHook() = onAudit;
	run.count("memo-audit-hook-installed");
#endif
	void (*fn)(uint64_t, vh::Rng&) = nullptr;
	if (run.prop == "C09") fn = caseC09; else if (run.prop == "C10") fn = caseC10;
	else { fprintf(stderr, "mon_fa: unknown property %s\n", run.prop.c_str()); return 2; }
	uint64_t idx;
	while (run.next(idx)) { vh::Rng g = run.rng(idx); fn(idx, g); }
#ifdef HAVE_VERIF_HOOKS
	for (int i = 0; i < VATA::Verif::NUM_COUNTERS; ++i) if (VATA::Verif::Counters()[i]) run.count(std::string("reach:") + VATA::Verif::CounterName(i), static_cast<long>(VATA::Verif::Counters()[i]));
#endif
	return run.finish();
}
