// Shared infrastructure of all monitor processes: argument parsing, per-case PRNG, the
// "current case" file (mmap'ed, survives a crash of the process), the per-case CPU-time
// watchdog, violation records (JSONL), periodic summaries and the hash file used by the
// driver to count distinct non-trivial cases across shards.
//
// Protocol with the driver (/verif/check):
//   exit 0  all cases of this invocation were executed (violations, if any, are in *.viol.jsonl)
//   exit 3  the per-case watchdog fired; <out>/<tag>.cur names the case
//   other   crash / sanitizer abort;    <out>/<tag>.cur names the case
#pragma once
#include <cstdint>
#include <cstdio>
#include <cstdlib>
#include <cstring>
#include <string>
#include <vector>
#include <map>
#include <set>
#include <unordered_set>
#include <random>
#include <sstream>
#include <algorithm>
#include <chrono>
#include <csignal>
#include <unistd.h>
#include <fcntl.h>
#include <sys/mman.h>
#include <sys/time.h>

namespace vh {

inline uint64_t splitmix64(uint64_t x)
{
	x += 0x9e3779b97f4a7c15ull;
	x = (x ^ (x >> 30)) * 0xbf58476d1ce4e5b9ull;
	x = (x ^ (x >> 27)) * 0x94d049bb133111ebull;
	return x ^ (x >> 31);
}

inline uint64_t fnv(const std::string& s, uint64_t h = 1469598103934665603ull)
{
	for (unsigned char c : s) { h ^= c; h *= 1099511628211ull; }
	return h;
}

struct Rng : std::mt19937_64
{
	explicit Rng(uint64_t s = 1) : std::mt19937_64(s) {}
	// uniform in [0, n)
	uint64_t below(uint64_t n) { return n ? (*this)() % n : 0; }
	// uniform in [lo, hi]
	int range(int lo, int hi) { return lo + static_cast<int>(below(static_cast<uint64_t>(hi - lo + 1))); }
	bool chance(int num, int den) { return below(den) < static_cast<uint64_t>(num); }
	template <class T> const T& pick(const std::vector<T>& v) { return v[below(v.size())]; }
};

inline std::string jsonEscape(const std::string& s)
{
	std::string o;
	for (unsigned char c : s)
	{
		switch (c)
		{
			case '"': o += "\\\""; break;
			case '\\': o += "\\\\"; break;
			case '\n': o += "\\n"; break;
			case '\r': o += "\\r"; break;
			case '\t': o += "\\t"; break;
			default:
				if (c < 0x20 || c >= 0x7f) { char b[8]; snprintf(b, sizeof b, "\\u%04x", c); o += b; }
				else o += static_cast<char>(c);
		}
	}
	return o;
}

class Run
{
public:
	std::string prop, outdir, tag = "s0", tier = "quick", variant = "plain";
	uint64_t seed = 1, shard = 0, nshards = 1, cases = 100, from = 0;
	long singleCase = -1;
	int timeoutSec = 20;
	std::map<std::string, std::string> params;
	std::string inputFile;   // --input: replaces the generated automata of the (single) case by the ones in this file (used by the shrinker)

private:
	static const size_t CUR_SIZE = 1 << 16;
	static const size_t DESC_OFF = 192;
	char* cur_ = nullptr;
	FILE* viol_ = nullptr;
	FILE* hashes_ = nullptr;
	uint64_t next_ = 0, curCase_ = 0;
	bool started_ = false;
	std::string curDesc_;
	std::map<std::string, long> counters_;
	std::unordered_set<uint64_t> nontrivial_;
	std::vector<std::string> samples_;
	long evaluations_ = 0, violations_ = 0, inconclusive_ = 0;
	std::chrono::steady_clock::time_point lastFlush_, t0_;
	size_t maxSamples_ = 4;

	static char*& curPtr() { static char* p = nullptr; return p; }
public:
	// per-case CPU budget, also applied to child processes (the `vata` binary) a case starts
	static int& caseTimeoutSec() { static int v = 20; return v; }
private:

	static void onTimer(int)
	{
		char* p = curPtr();
		if (p) { memcpy(p, "TIMEOUT ", 8); }
		_exit(3);
	}

public:
	Run(int argc, char** argv)
	{
		for (int i = 1; i < argc; ++i)
		{
			std::string a = argv[i];
			auto val = [&]() -> std::string {
				if (i + 1 >= argc) { fprintf(stderr, "missing value for %s\n", a.c_str()); exit(2); }
				return argv[++i];
			};
			if (a == "--prop") prop = val();
			else if (a == "--seed") seed = strtoull(val().c_str(), nullptr, 10);
			else if (a == "--shard") shard = strtoull(val().c_str(), nullptr, 10);
			else if (a == "--nshards") nshards = strtoull(val().c_str(), nullptr, 10);
			else if (a == "--cases") cases = strtoull(val().c_str(), nullptr, 10);
			else if (a == "--from") from = strtoull(val().c_str(), nullptr, 10);
			else if (a == "--case") singleCase = strtol(val().c_str(), nullptr, 10);
			else if (a == "--out") outdir = val();
			else if (a == "--tag") tag = val();
			else if (a == "--tier") tier = val();
			else if (a == "--variant") variant = val();
			else if (a == "--timeout") { timeoutSec = atoi(val().c_str()); caseTimeoutSec() = timeoutSec; }
			else if (a == "--input") inputFile = val();
			else if (a == "-P")
			{
				std::string kv = val(); size_t e = kv.find('=');
				if (e == std::string::npos) params[kv] = "1"; else params[kv.substr(0, e)] = kv.substr(e + 1);
			}
			else { fprintf(stderr, "unknown argument %s\n", a.c_str()); exit(2); }
		}
		if (prop.empty() || outdir.empty()) { fprintf(stderr, "--prop and --out are required\n"); exit(2); }

		std::string curFile = outdir + "/" + tag + ".cur";
		int fd = open(curFile.c_str(), O_RDWR | O_CREAT | O_TRUNC, 0644);
		if (fd < 0 || ftruncate(fd, CUR_SIZE) != 0) { perror("cur file"); exit(2); }
		cur_ = static_cast<char*>(mmap(nullptr, CUR_SIZE, PROT_READ | PROT_WRITE, MAP_SHARED, fd, 0));
		if (cur_ == MAP_FAILED) { perror("mmap"); exit(2); }
		close(fd);
		curPtr() = cur_;
		memset(cur_, 0, CUR_SIZE); setStatus("NONE", 0);

		viol_ = fopen((outdir + "/" + tag + ".viol.jsonl").c_str(), "a");
		hashes_ = fopen((outdir + "/" + tag + ".hashes").c_str(), "ab");
		if (!viol_ || !hashes_) { perror("out files"); exit(2); }

		struct sigaction sa; memset(&sa, 0, sizeof sa); sa.sa_handler = onTimer;
		sigaction(SIGPROF, &sa, nullptr);

		next_ = (singleCase >= 0) ? static_cast<uint64_t>(singleCase) : from;
		// first index >= from that belongs to this shard
		if (singleCase < 0) while (next_ % nshards != shard) ++next_;
		t0_ = lastFlush_ = std::chrono::steady_clock::now();
	}

	long param(const std::string& k, long dflt) const
	{
		auto it = params.find(k); return it == params.end() ? dflt : atol(it->second.c_str());
	}
	bool thorough() const { return tier == "thorough"; }

	// Advance to the next case of this shard; false when done.
	bool next(uint64_t& idx)
	{
		if (started_) endCase();
		if (singleCase >= 0)
		{
			if (started_) return false;
			idx = static_cast<uint64_t>(singleCase);
		}
		else
		{
			if (next_ >= cases) return false;
			idx = next_; next_ += nshards;
		}
		started_ = true; curCase_ = idx; curDesc_.clear();
		++evaluations_;
		setStatus("RUNNING", idx); phase("start"); cur_[DESC_OFF] = 0;
		arm(timeoutSec);
		return true;
	}

	Rng rng(uint64_t idx) const { return Rng(splitmix64(splitmix64(seed * 1000003ull + fnv(prop)) ^ (idx * 0x9e3779b97f4a7c15ull))); }

	void arm(int sec)
	{
		struct itimerval tv; memset(&tv, 0, sizeof tv); tv.it_value.tv_sec = sec;
		setitimer(ITIMER_PROF, &tv, nullptr);
	}

	// Layout of the crash-surviving file: [0,64) status line, [64,192) phase line, [192,..) case text.
	void setStatus(const char* st, uint64_t idx)
	{
		char line[64]; memset(line, ' ', sizeof line);
		int n = snprintf(line, sizeof line, "%s %llu", st, static_cast<unsigned long long>(idx));
		if (n > 0 && n < 64) line[n] = ' ';
		line[63] = '\n'; memcpy(cur_, line, 64);
	}
	// Describe the current case (input text) — kept in the crash-surviving file.
	void desc(const std::string& d)
	{
		curDesc_ = d;
		size_t n = std::min(d.size(), CUR_SIZE - DESC_OFF - 1);
		memcpy(cur_ + DESC_OFF, d.data(), n); cur_[DESC_OFF + n] = 0;
	}
	// Name the library call about to be made (so a crash report can say where).
	void phase(const char* p)
	{
		char line[128]; memset(line, ' ', sizeof line);
		int n = snprintf(line, sizeof line, "phase=%.100s", p);
		if (n > 0 && n < 128) line[n] = ' ';
		line[127] = '\n'; memcpy(cur_ + 64, line, 128);
	}
	void phase(const std::string& p) { phase(p.c_str()); }

	void count(const std::string& k, long n = 1) { counters_[k] += n; }
	// a further execution judged inside the current case (e.g. the same object again after in-place modification)
	void extraEvaluation() { ++evaluations_; }
	long counter(const std::string& k) const { auto it = counters_.find(k); return it == counters_.end() ? 0 : it->second; }

	// The current case is non-trivial by the property's rule; h identifies it.
	void nontrivial(uint64_t h)
	{
		if (nontrivial_.insert(h).second) fwrite(&h, sizeof h, 1, hashes_);
	}
	void sample(const std::string& s) { if (samples_.size() < maxSamples_) samples_.push_back(s); }
	bool wantSample() const { return samples_.size() < maxSamples_; }

	void inconclusive(const std::string& why) { ++inconclusive_; count("inconclusive:" + why); }

	void violation(const std::string& key, const std::string& detail)
	{
		++violations_;
		fprintf(viol_, "{\"property\":\"%s\",\"key\":\"%s\",\"case\":%llu,\"seed\":%llu,\"variant\":\"%s\",\"detail\":\"%s\",\"desc\":\"%s\"}\n",
			prop.c_str(), jsonEscape(key).c_str(), static_cast<unsigned long long>(curCase_),
			static_cast<unsigned long long>(seed), variant.c_str(), jsonEscape(detail).c_str(), jsonEscape(curDesc_).c_str());
		fflush(viol_);
		count("violation:" + key);
	}

	void endCase()
	{
		arm(0);
		auto now = std::chrono::steady_clock::now();
		if (now - lastFlush_ > std::chrono::seconds(2)) { flush(false); lastFlush_ = now; }
	}

	void flush(bool done)
	{
		fflush(hashes_);
		std::string tmp = outdir + "/" + tag + ".summary.json.tmp", fin = outdir + "/" + tag + ".summary.json";
		FILE* f = fopen(tmp.c_str(), "w");
		if (!f) return;
		fprintf(f, "{\"prop\":\"%s\",\"tag\":\"%s\",\"done\":%s,\"evaluations\":%ld,\"nontrivial\":%zu,\"violations\":%ld,\"inconclusive\":%ld,\"last_case\":%llu,\"wall_s\":%.3f,\n \"counters\":{",
			prop.c_str(), tag.c_str(), done ? "true" : "false", evaluations_, nontrivial_.size(), violations_, inconclusive_,
			static_cast<unsigned long long>(curCase_),
			std::chrono::duration<double>(std::chrono::steady_clock::now() - t0_).count());
		bool first = true;
		for (auto& p : counters_) { fprintf(f, "%s\"%s\":%ld", first ? "" : ",", jsonEscape(p.first).c_str(), p.second); first = false; }
		fprintf(f, "},\n \"samples\":[");
		first = true;
		for (auto& s : samples_) { fprintf(f, "%s\"%s\"", first ? "" : ",", jsonEscape(s).c_str()); first = false; }
		fprintf(f, "]}\n");
		fclose(f);
		rename(tmp.c_str(), fin.c_str());
	}

	int finish()
	{
		arm(0);
		setStatus("DONE", curCase_);
		flush(true);
		fclose(viol_); fclose(hashes_);
		return 0;
	}
};

template <class T> std::string str(const T& v) { std::ostringstream os; os << v; return os.str(); }

} // namespace vh
