// Differential monitor for language inclusion on tree automata.
//   C01: ExplicitTreeAut::CheckInclusion under the 8 implemented selections (raw and
//        pre-sanitised operands, simulation protocol as in cli/operations.hh)
//   C07: BDDTopDownTreeAut / BDDBottomUpTreeAut::CheckInclusion under the implemented
//        selections, cross-checked against the explicit encoding
// Oracle: joint subset construction (refmodel.hh); second, online oracle: the guarded memo
// audit hook (cached comparison result == recomputed one), when /repo carries it.
#include "vata_util.hh"
#include "gen.hh"
#include <vata/util/binary_relation.hh>
#include <fstream>

#ifdef LIBVATA_VERIF
#  include "util/verif_hooks.hh"
#  define HAVE_VERIF_HOOKS 1
#endif

using namespace vu;

static vh::Run* R;
static long auditReports = 0; static std::string auditFirst;
#ifdef HAVE_VERIF_HOOKS
static void onAudit(const char* site, const char* detail)
{
	if (auditReports++ == 0) auditFirst = std::string(site) + ": " + detail;
}
#endif

struct Sel { const char* name; bool down, rec, opt, sim; };
static const Sel SELS[8] = {
	{"up", 0, 0, 0, 0}, {"up+sim", 0, 0, 0, 1},
	{"down-nonrec", 1, 0, 0, 0}, {"down-nonrec+sim", 1, 0, 0, 1},
	{"down-rec", 1, 1, 0, 0}, {"down-rec+sim", 1, 1, 0, 1},
	{"down-rec-opt", 1, 1, 1, 0}, {"down-rec-opt+sim", 1, 1, 1, 1}};

static InclParam mkParam(const Sel& s)
{
	InclParam ip; ip.SetAlgorithm(InclParam::e_algorithm::antichains);
	ip.SetDirection(s.down ? InclParam::e_direction::downward : InclParam::e_direction::upward);
	ip.SetUseRecursion(s.rec); ip.SetUseDownwardCacheImpl(s.opt); ip.SetUseSimulation(s.sim);
	return ip;
}

// the documented protocol: sanitise, union, simulation on the union, check
template <class A>
static bool inclProtocol(A sm, A bg, const Sel& s, bool presanitise)
{
	InclParam ip = mkParam(s);
	AutBase::StateDiscontBinaryRelation rel;
	if (s.sim || presanitise)
	{
		AutBase::StateType n = AutBase::SanitizeAutsForInclusion(sm, bg);
		if (s.sim)
		{
			A u = A::UnionDisjointStates(sm, bg);
			SimParam sp; sp.SetRelation(s.down ? SimParam::e_sim_relation::TA_DOWNWARD : SimParam::e_sim_relation::TA_UPWARD);
			sp.SetNumStates(n);
			rel = u.ComputeSimulation(sp);
			ip.SetSimulation(&rel);
		}
	}
	return A::CheckInclusion(sm, bg, ip);
}

static AutBase::StateDiscontBinaryRelation identityRel(size_t n)
{
	Util::BinaryRelation br(n, false); for (size_t i = 0; i < n; ++i) br.set(i, i, true);
	Util::DiscontBinaryRelation::DictType dict; for (size_t i = 0; i < n; ++i) dict.insert(std::make_pair(i, i));
	return AutBase::StateDiscontBinaryRelation(br, dict);
}

static void judge(const std::string& prop, const std::string& sel, bool got, int ref, int explicitVerdict)
{
	R->count("runs:" + sel);
	if (ref >= 0 && got != static_cast<bool>(ref))
		R->violation(prop + "/" + sel + (got ? "/falsely-included" : "/falsely-rejected"), std::string("library: ") + (got ? "included" : "not included") + ", reference model: " + (ref ? "included" : "not included"));
	else if (ref < 0 && explicitVerdict >= 0 && got != static_cast<bool>(explicitVerdict))
		R->violation(prop + "/" + sel + "/disagrees-with-explicit", "reference model inconclusive; explicit upward verdict differs");
	if (auditReports)
	{
		R->violation(prop + "/" + sel + "/memo-audit", "a memoised comparison result differs from the recomputed one: " + auditFirst + " (" + vh::str(auditReports) + " report(s))");
		auditReports = 0; auditFirst.clear();
	}
}

// A selection the library does not implement must be reported by an exception, never by a wrong verdict.
// (Should it start to answer — somebody implemented it — a CORRECT verdict is no violation.)
template <class F>
static void expectNotImplemented(const std::string& prop, const std::string& sel, int ref, F f)
{
	R->count("runs-unimplemented:" + sel);
	try
	{
		bool r = f();
		if (ref >= 0 && r != static_cast<bool>(ref)) R->violation(prop + "/" + sel + "/wrong-verdict-instead-of-exception", std::string("unimplemented selection returned ") + (r ? "true" : "false"));
		else R->count("unimplemented-selection-answered-correctly:" + sel);
	}
	catch (NotImplementedException&) { R->count("unimplemented-selection-threw:" + sel); }
	catch (std::exception&) { R->count("unimplemented-selection-threw-other-std-exception:" + sel); }
}

using gen::maxTuples;

// ---------------------------------------------------------------- G4: cut-downs of shipped automata
// (realistic symbols and rule shapes, small enough for the reference model)
struct CorpusAut { Alpha al; RTA a; };
static std::vector<CorpusAut>& corpus()
{
	static std::vector<CorpusAut> c; static bool loaded = false;
	if (loaded) return c; loaded = true;
	std::map<std::pair<std::string, size_t>, int> symIdx; Alpha al;   // one alphabet for the whole directory
	const char* dir = "/repo/tests/aut_timbuk_smaller/"; const char* files[] = {"A0053", "A0054", "A0055", "A0056", "A0057", "A0058", "A0059", "A0060", "A0062", "A0063", "A0064", "A0065", "A0070", "A0080", "A0082", "A0083"};
	for (auto f : files)
	{
		std::ifstream in(std::string(dir) + f); if (!in) continue; std::stringstream ss; ss << in.rdbuf();
		try
		{
			auto d = parser().ParseString(ss.str()); CorpusAut ca; std::map<std::string, St> ids;
			auto id = [&](const std::string& n) { auto it = ids.find(n); if (it != ids.end()) return it->second; St v = ids.size(); ids[n] = v; return v; };
			for (auto& t : d.transitions)
			{
				auto key = std::make_pair(t.second, t.first.size()); auto it = symIdx.find(key);
				if (it == symIdx.end()) { it = symIdx.insert(std::make_pair(key, static_cast<int>(al.rank.size()))).first; al.rank.push_back(static_cast<int>(t.first.size())); }
				RRule r; r.sym = it->second; for (auto& ch : t.first) r.ch.push_back(id(ch)); r.par = id(t.third); ca.a.rules.insert(r);
			}
			for (auto& fs : d.finalStates) ca.a.fin.insert(id(fs));
			c.push_back(ca);
		}
		catch (std::exception&) { }
	}
	for (auto& x : c) x.al = al;
	return c;
}
// sub-automaton on the k states found first top-down from `root` (which becomes the final state)
static RTA cutDown(vh::Rng& g, const RTA& src, St root, size_t k)
{
	std::map<St, std::vector<const RRule*>> byPar; for (auto& r : src.rules) byPar[r.par].push_back(&r);
	std::set<St> in{root}; std::vector<St> q{root};
	for (size_t i = 0; i < q.size() && in.size() < k; ++i)
	{
		auto rs = byPar[q[i]]; std::shuffle(rs.begin(), rs.end(), g);
		for (auto r : rs) for (St c : r->ch) if (in.size() < k && in.insert(c).second) q.push_back(c);
	}
	RTA out; out.fin.insert(root);
	for (auto& r : src.rules) { bool ok = in.count(r.par) != 0; for (St c : r.ch) if (!in.count(c)) ok = false; if (ok) out.rules.insert(r); }
	return out;
}
// bottom-up variant: grow a productive set of k states from the leaf rules; the state added last is final
static RTA cutUp(vh::Rng& g, const RTA& src, size_t k)
{
	std::vector<const RRule*> rules; for (auto& r : src.rules) rules.push_back(&r); std::shuffle(rules.begin(), rules.end(), g);
	std::set<St> in; St last = 0; bool grew = true;
	while (in.size() < k && grew)
	{
		grew = false;
		for (auto r : rules)
		{
			if (in.count(r->par)) continue; bool ok = true; for (St c : r->ch) if (!in.count(c)) ok = false;
			if (ok && g.chance(2, 3)) { in.insert(r->par); last = r->par; grew = true; if (in.size() >= k) break; }
		}
	}
	RTA out; if (in.empty()) return out; out.fin.insert(last);
	for (auto& r : src.rules) { bool ok = in.count(r.par) != 0; for (St c : r.ch) if (!in.count(c)) ok = false; if (ok) out.rules.insert(r); }
	return out;
}
static bool genCorpusPair(vh::Rng& g, Alpha& al, RTA& a, RTA& b, std::string& kind)
{
	auto& c = corpus(); if (c.empty()) return false;
	const CorpusAut& x = g.pick(c); al = x.al; std::set<St> ss = x.a.states(); std::vector<St> st(ss.begin(), ss.end());
	St root = g.chance(1, 2) && !x.a.fin.empty() ? *x.a.fin.begin() : st[g.below(st.size())];
	a = cutDown(g, x.a, root, static_cast<size_t>(g.range(4, 10)));
	if (g.chance(2, 3)) { a = cutUp(g, x.a, static_cast<size_t>(g.range(3, 9))); if (!a.fin.empty()) root = *a.fin.begin(); }
	int k = static_cast<int>(g.below(4));
	if (k == 0 && g.chance(1, 2)) { b = cutUp(g, x.a, static_cast<size_t>(g.range(4, 12))); kind = "G4-corpus-bottom-up"; k = 99; }
	if (k == 99) { }
	else if (k == 0) { b = cutDown(g, x.a, root, static_cast<size_t>(g.range(6, 14))); kind = "G4-corpus-same-root"; }
	else if (k == 1) { const CorpusAut& y = g.pick(c); std::set<St> ys = y.a.states(); std::vector<St> yv(ys.begin(), ys.end()); b = cutDown(g, y.a, yv[g.below(yv.size())], static_cast<size_t>(g.range(4, 12))); kind = "G4-corpus-other"; }
	else if (k == 2) { b = gen::mutate(g, al, a); kind = "G4-corpus-mutated"; }
	else { b = a; RTA e = cutDown(g, x.a, st[g.below(st.size())], 6); b = gen::unionRM(a, gen::shiftStates(e, 1000)); if (g.chance(1, 2)) b.fin.insert(1000 + *e.fin.begin()); kind = "G4-corpus-superset"; }
	a = rm::densify(a); b = rm::densify(b);
	{	// restrict the alphabet to the symbols the pair uses (a tree with any other symbol is rejected by both)
		std::map<int, int> remap; Alpha small;
		auto mapSym = [&](RTA& x) { RTA y; y.fin = x.fin; for (auto r : x.rules) { auto it = remap.find(r.sym); if (it == remap.end()) { it = remap.insert(std::make_pair(r.sym, static_cast<int>(small.rank.size()))).first; small.rank.push_back(al.rank[r.sym]); } r.sym = it->second; y.rules.insert(r); } x = y; };
		mapSym(a); mapSym(b); al = small;
	}
	return !a.rules.empty();
}

static void genCase(uint64_t idx, vh::Rng& g, Alpha& al, RTA& a, RTA& b, std::string& kind, int S, int Rn)
{
	static gen::Exhaustive exPair(2, 2);
	uint64_t nEx = static_cast<uint64_t>(R->param("exhaustive", 1000));
	if (idx < nEx)
	{
		al = gen::sigma0(); kind = "G1-pair"; uint64_t n = exPair.size(), k = (idx * 2654435761ull + R->seed * 7919) % (n * n);
		a = exPair.get(k % n); b = exPair.get(k / n);
	}
	else if (g.below(100) < static_cast<uint64_t>(R->param("corpus_percent", 6)) && genCorpusPair(g, al, a, b, kind)) { }
	else gen::genPair(g, S, Rn, al, a, b, kind, true);
	if (!R->inputFile.empty())
	{	// --input FILE: replace the generated pair (shrinker)
		Alpha ial; std::vector<RTA> auts; int k = parseCaseText(slurpFile(R->inputFile), ial, auts);
		if (k < 2) { fprintf(stderr, "cannot parse --input file (two automata needed)\n"); exit(2); }
		al = ial; a = auts[0]; b = auts[1]; kind = "input-file";
	}
}

static void account(const Alpha& al, const RTA& a, const RTA& b, const std::string& kind, int ref)
{
	R->count("gen:" + kind);
	if (ref < 0) { R->inconclusive("rm-cap"); return; }
	R->count(ref ? "verdict:included" : "verdict:not-included");
	if (rm::refEmpty(a, al) == 0 && rm::refEmpty(b, al) == 0)
	{
		R->count(ref ? "nontrivial:included" : "nontrivial:not-included");
		R->nontrivial(vh::fnv(canon(al) + canon(a) + "|" + canon(b)));
		if (R->wantSample()) R->sample(kind + (ref ? " [included]\n" : " [not included]\n") + rm::toTimbuk(a, al, "A") + rm::toTimbuk(b, al, "B"));
	}
}

// ======================================================================= C01
static void caseC01(uint64_t idx, vh::Rng& g)
{
	Alpha al; RTA a, b; std::string kind; genCase(idx, g, al, a, b, kind, 6, 10);
	// forked operands (an eighth of the non-exhaustive cases): both objects start as copies of one automaton,
	// sharing its rule storage, and are then modified differently in place
	bool forked = false; RTA base;
	if (kind.compare(0, 2, "G1") != 0 && kind != "input-file" && g.chance(1, 8))
	{
		forked = true; base = a; b = a; kind = "G6-forked-copies";
		std::set<St> ss = base.states(); std::vector<St> st(ss.begin(), ss.end()); if (st.empty()) st.push_back(0);
		auto extend = [&](RTA& x, int n) { for (int i = 0; i < n; ++i) { if (g.chance(1, 4)) { if (g.chance(1, 3)) x.fin.clear(); x.fin.insert(st[g.below(st.size())]); } else { RTA e = gen::randTA(g, al, st, g.range(1, 2), 0); x.rules.insert(e.rules.begin(), e.rules.end()); } } };
		extend(a, g.range(0, 2)); extend(b, g.range(1, 3));
	}
	R->desc(rm::toTimbuk(a, al, "A") + rm::toTimbuk(b, al, "B"));
	int ref = rm::refIncl(a, b, al);
	account(al, a, b, kind, ref);
	bool small = a.states().size() <= 6 && b.states().size() <= 6 && maxTuples(b) <= 9;
	bool heavy = maxTuples(b) > 12;
	bool viaText = g.chance(1, 4);   // a quarter of the cases go through the Timbuk loader (shared symbol names)
	CaseAlphabet ca(al);
	// a fifth of the cases: operands are RESULTS of language-preserving operations (objects with a history);
	// the reference verdict is unaffected
	int derive = g.chance(1, 5) ? 1 + static_cast<int>(g.below(5)) : 0; if (forked) derive = 0; if (derive) R->count("derived-operands");
	if (derive == 4) { small = small && gen::maxTuples(b) * 2 <= 9; heavy = gen::maxTuples(b) * 2 > 12; }   // Union(B,B) doubles the tuples
	auto mk = [&](const RTA& x, const char* nm) {
		Aut r = viaText ? loadText<Aut>(rm::toTimbuk(x, al, nm)) : mkExpl(x, ca);
		switch (derive)
		{
			case 1: return r.RemoveUselessStates();
			case 2: return r.RemoveUnreachableStates();
			case 3: return r.Reduce();
			case 4: return Aut::Union(r, r);
			case 5: { AutBase::StateToStateMap m; size_t c = 3; AutBase::StateToStateTranslWeak tr(m, [&c](const size_t&) { c += 2; return c; }); return r.ReindexStates(tr); }
			default: return r;
		} };
	// the pair of operand objects of one library call
	auto mkPair = [&](Aut& x, Aut& y) {
		if (!forked) { x = mk(a, "A"); y = mk(b, "B"); return; }
		Aut B0 = mkExpl(base, ca); x = B0; { Aut c(B0); y = c; }
		auto grow = [&](Aut& o, const RTA& t) {
			bool sup = true; for (St f : base.fin) if (!t.fin.count(f)) sup = false;
			if (!sup) o.EraseFinalStates();
			for (St f : t.fin) if (!sup || !base.fin.count(f)) o.SetStateFinal(f);
			for (auto& r : t.rules) if (!base.rules.count(r)) { std::vector<size_t> ch(r.ch.begin(), r.ch.end()); o.AddTransition(ch, ca.num[r.sym], r.par); } };
		grow(x, a); grow(y, b); };
	R->count(forked ? "built:forked-copies" : viaText ? "built:timbuk-text" : "built:AddTransition");
	for (const Sel& s : SELS)
	{
		if (s.down && !s.sim && !small) { R->count("skipped-large:" + std::string(s.name)); continue; }
		if (s.down && heavy) { R->count("skipped-heavy:" + std::string(s.name)); continue; }
		for (int pre = 0; pre < (s.sim ? 1 : 2); ++pre)
		{
			std::string sel = std::string("expl/") + s.name + (pre ? "/presanitised" : "");
			R->phase(sel);
			try { Aut x, y; mkPair(x, y); bool r = inclProtocol(x, y, s, pre); judge("C01", sel, r, ref, -1); }
			catch (std::exception& e) { R->violation("C01/" + sel + "/exception", e.what()); }
		}
	}
	R->phase("expl/default-params");
	try { Aut x, y; mkPair(x, y); judge("C01", "expl/default-params", Aut::CheckInclusion(x, y), ref, -1); }
	catch (std::exception& e) { R->violation("C01/expl/default-params/exception", e.what()); }
	if (idx % static_cast<uint64_t>(R->param("cli_every", 200)) == 0)
	{	// the same pair through the command-line tool (option parsing -> dispatch -> simulation protocol of cli/operations.hh)
		std::string fa = R->outdir + "/" + R->tag + ".A.txt", fb = R->outdir + "/" + R->tag + ".B.txt";
		writeFile(fa, rm::toTimbuk(a, al, "A")); writeFile(fb, rm::toTimbuk(b, al, "B"));
		for (const Sel& s : SELS)
		{
			if (s.down && ((!s.sim && !small) || heavy)) continue;
			std::string opt = std::string("dir=") + (s.down ? "down" : "up") + ",rec=" + (s.rec ? "yes" : "no") + ",optC=" + (s.opt ? "yes" : "no") + ",sim=" + (s.sim ? "yes" : "no");
			std::string sel = std::string("cli-expl/") + s.name; R->phase(sel); int rc = 0;
			std::string out = runVata("-r expl -o " + opt + " incl " + fa + " " + fb, rc);
			if (rc != 0 || (out.compare(0, 1, "1") != 0 && out.compare(0, 1, "0") != 0)) R->violation("C01/" + sel + "/cli-failed", "exit " + vh::str(rc) + ": " + out.substr(0, 300));
			else judge("C01", sel, out[0] == '1', ref, -1);
		}
		{ int rc = 0; std::string out = runVata("-r expl -o dir=down,rec=no,optC=yes incl " + fa + " " + fb, rc); R->count("runs-unimplemented:cli-expl/down-nonrec-opt"); if (rc == 0 && ref >= 0 && !((out.compare(0, 1, "1") == 0 && ref == 1) || (out.compare(0, 1, "0") == 0 && ref == 0))) R->violation("C01/cli-expl/down-nonrec-opt/wrong-verdict-instead-of-error", "unimplemented selection printed: " + out.substr(0, 100)); }
	}
	if (vh::splitmix64(idx * 11 + 5) % 16 == 0)
	{	// unimplemented selections must throw NotImplementedException
		Aut x, y; mkPair(x, y);
		R->phase("expl/unimplemented");
		expectNotImplemented("C01", "expl/down-nonrec-opt", ref, [&] { InclParam ip = mkParam(Sel{"", 1, 0, 1, 0}); return Aut::CheckInclusion(x, y, ip); });
		expectNotImplemented("C01", "expl/up-rec", ref, [&] { InclParam ip = mkParam(Sel{"", 0, 1, 0, 0}); return Aut::CheckInclusion(x, y, ip); });
		expectNotImplemented("C01", "expl/congruences", ref, [&] { InclParam ip = mkParam(Sel{"", 0, 0, 0, 0}); ip.SetAlgorithm(InclParam::e_algorithm::congruences); return Aut::CheckInclusion(x, y, ip); });
	}
}

// ======================================================================= C07
static void caseC07(uint64_t idx, vh::Rng& g)
{
	Alpha al; RTA a, b; std::string kind; genCase(idx, g, al, a, b, kind, 5, 9);
	std::string sa = rm::toTimbuk(a, al, "A"), sb = rm::toTimbuk(b, al, "B");
	R->desc(sa + sb);
	int ref = rm::refIncl(a, b, al);
	account(al, a, b, kind, ref);
	bool small = a.states().size() <= 6 && b.states().size() <= 6 && maxTuples(b) <= 9;
	// a fifth of the cases: BDD operands are RESULTS of language-preserving operations
	int derive = g.chance(1, 5) ? 1 + static_cast<int>(g.below(3)) : 0; if (derive) R->count("derived-operands");
	int expl = -1;
	R->phase("expl/up");
	try { Aut x = loadText<Aut>(sa), y = loadText<Aut>(sb); expl = inclProtocol(x, y, SELS[0], false) ? 1 : 0; } catch (std::exception&) { }
	if (expl >= 0 && ref >= 0 && expl != ref) R->count("explicit-encoding-disagrees-with-rm");

	// ---- top-down encoding
	for (int opt = 0; opt < 2; ++opt)
	{
		Sel s{"", 1, 1, static_cast<bool>(opt), 0};
		std::string sel = std::string("bdd-td/down-rec") + (opt ? "-opt" : "");
		if (small) for (int pre = 0; pre < 2; ++pre)
		{
			std::string nm = sel + (pre ? "/presanitised" : ""); R->phase(nm);
			try { SharedDict sd; auto x = loadText<BDDTopDownTreeAut>(sa, sd), y = loadText<BDDTopDownTreeAut>(sb, sd);
			      if (derive == 1) { x = x.RemoveUselessStates(); y = y.RemoveUselessStates(); } else if (derive == 2) { x = x.RemoveUnreachableStates(); y = y.RemoveUnreachableStates(); } else if (derive == 3) { x = BDDTopDownTreeAut::Union(x, x); y = BDDTopDownTreeAut::Union(y, y); }
			      judge("C07", nm, inclProtocol(x, y, s, pre), ref, expl); }
			catch (std::exception& e) { R->violation("C07/" + nm + "/exception", e.what()); }
		}
		// with a simulation: supplied the way the library itself does it in the bottom-up path
		// (BU operands sanitised, union, BU downward simulation, GetTopDownAut), and identity
		for (int mode = 0; mode < 2; ++mode)
		{
			if (maxTuples(b) > 12) { R->count("skipped-heavy:" + sel + "+sim"); continue; }
			std::string nm = sel + (mode ? "+sim(identity)" : "+sim(bu-downward)"); R->phase(nm);
			try
			{
				SharedDict sd; auto x = loadText<BDDBottomUpTreeAut>(sa, sd), y = loadText<BDDBottomUpTreeAut>(sb, sd);
				AutBase::StateType n = AutBase::SanitizeAutsForInclusion(x, y);
				AutBase::StateDiscontBinaryRelation sim;
				if (mode == 0)
				{
					auto u = BDDBottomUpTreeAut::UnionDisjointStates(x, y);
					SimParam sp; sp.SetRelation(SimParam::e_sim_relation::TA_DOWNWARD); sp.SetNumStates(n);
					sim = u.ComputeSimulation(sp);
				}
				else sim = identityRel(n);
				BDDTopDownTreeAut tx = x.GetTopDownAut(), ty = y.GetTopDownAut();
				InclParam ip = mkParam(Sel{"", 1, 1, static_cast<bool>(opt), 1}); ip.SetSimulation(&sim);
				judge("C07", nm, BDDTopDownTreeAut::CheckInclusion(tx, ty, ip), ref, expl);
			}
			catch (std::exception& e) { R->violation("C07/" + nm + "/exception", e.what()); }
		}
	}
	// ---- bottom-up encoding
	for (int pre = 0; pre < 2; ++pre)
	{
		std::string nm = std::string("bdd-bu/up") + (pre ? "/presanitised" : ""); R->phase(nm);
		try { SharedDict sd; auto x = loadText<BDDBottomUpTreeAut>(sa, sd), y = loadText<BDDBottomUpTreeAut>(sb, sd);
		      if (derive == 1) { x = x.RemoveUselessStates(); y = y.RemoveUselessStates(); } else if (derive == 2) { x = x.RemoveUnreachableStates(); y = y.RemoveUnreachableStates(); } else if (derive == 3) { x = BDDBottomUpTreeAut::Union(x, x); y = BDDBottomUpTreeAut::Union(y, y); }
		      judge("C07", nm, inclProtocol(x, y, SELS[0], pre), ref, expl); }
		catch (std::exception& e) { R->violation("C07/" + nm + "/exception", e.what()); }
	}
	{	// upward "with simulation": identity is a valid upward simulation preorder
		std::string nm = "bdd-bu/up+sim(identity)"; R->phase(nm);
		try
		{
			SharedDict sd; auto x = loadText<BDDBottomUpTreeAut>(sa, sd), y = loadText<BDDBottomUpTreeAut>(sb, sd);
			AutBase::StateType n = AutBase::SanitizeAutsForInclusion(x, y);
			auto sim = identityRel(n); InclParam ip = mkParam(SELS[1]); ip.SetSimulation(&sim);
			judge("C07", nm, BDDBottomUpTreeAut::CheckInclusion(x, y, ip), ref, expl);
		}
		catch (std::exception& e) { R->violation("C07/" + nm + "/exception", e.what()); }
	}
	{	// upward with a real simulation: the symbolic encodings cannot compute an upward simulation themselves, so
		// the caller has to bring one — here the explicit encoding's upward simulation of the same (sanitised,
		// united) automaton, rebuilt from the dump with identical state numbers
		std::string nm = "bdd-bu/up+sim(explicit-upward)"; R->phase(nm);
		try
		{
			SharedDict sd; auto x = loadText<BDDBottomUpTreeAut>(sa, sd), y = loadText<BDDBottomUpTreeAut>(sb, sd);
			AutBase::StateType n = AutBase::SanitizeAutsForInclusion(x, y);
			auto u = BDDBottomUpTreeAut::UnionDisjointStates(x, y); std::string txt = u.DumpToString(serializer());
			Aut e; { AutBase::StateDict d2; AutBase::StringToStateTranslWeak tr(d2, [](const std::string& q) { return static_cast<size_t>(std::stoul(q)); }); e.LoadFromString(parser(), txt, tr); }
			if (n > 0 && !e.AreTransitionsEmpty())
			{
				SimParam sp; sp.SetRelation(SimParam::e_sim_relation::TA_UPWARD); sp.SetNumStates(n);
				AutBase::StateDiscontBinaryRelation sim = e.ComputeSimulation(sp);
				InclParam ip = mkParam(SELS[1]); ip.SetSimulation(&sim);
				judge("C07", nm, BDDBottomUpTreeAut::CheckInclusion(x, y, ip), ref, expl);
			}
			else R->count("skipped-empty:" + nm);
		}
		catch (std::exception& e) { R->violation("C07/" + nm + "/exception", e.what()); }
	}
	if (maxTuples(b) <= 12)
	{	// downward with simulation: the library prepares everything itself
		std::string nm = "bdd-bu/down-rec+sim"; R->phase(nm);
		try { SharedDict sd; auto x = loadText<BDDBottomUpTreeAut>(sa, sd), y = loadText<BDDBottomUpTreeAut>(sb, sd); InclParam ip = mkParam(SELS[5]); judge("C07", nm, BDDBottomUpTreeAut::CheckInclusion(x, y, ip), ref, expl); }
		catch (std::exception& e) { R->violation("C07/" + nm + "/exception", e.what()); }
	}
	if (small && !a.rules.empty() && g.chance(1, 3))
	{	// forked operands: y is a copy of x (sharing its transition table) with one more final state
		std::set<St> ss = a.states(); std::vector<St> st(ss.begin(), ss.end()); St extra = st[g.below(st.size())];
		RTA a2 = a; a2.fin.insert(extra); int r1 = rm::refIncl(a2, a, al); R->count("forked-bdd-operands"); R->extraEvaluation();
		auto numOf = [&](SharedDict& sd, St q, size_t& out) { auto it = sd.d.FindFwd("q" + vh::str(q)); if (it == sd.d.EndFwd()) return false; out = it->second; return true; };
		try
		{
			{ SharedDict sd; auto x = loadText<BDDTopDownTreeAut>(sa, sd); auto y = x; size_t n;
			  if (numOf(sd, extra, n)) { y.SetStateFinal(n); Sel s{"", 1, 1, 0, 0}; R->phase("bdd-td/fork/down-rec");
			    judge("C07", "bdd-td/fork/down-rec(copy+final<=original)", inclProtocol(y, x, s, false), r1, -1); judge("C07", "bdd-td/fork/down-rec(original<=copy+final)", inclProtocol(x, y, s, false), 1, -1); } }
			{ SharedDict sd; auto x = loadText<BDDBottomUpTreeAut>(sa, sd); auto y = x; size_t n;
			  if (numOf(sd, extra, n)) { y.SetStateFinal(n); R->phase("bdd-bu/fork/up");
			    judge("C07", "bdd-bu/fork/up(copy+final<=original)", inclProtocol(y, x, SELS[0], false), r1, -1); judge("C07", "bdd-bu/fork/up(original<=copy+final)", inclProtocol(x, y, SELS[0], false), 1, -1);
			    if (maxTuples(a) <= 12) { InclParam ip = mkParam(SELS[5]); R->phase("bdd-bu/fork/down-rec+sim"); judge("C07", "bdd-bu/fork/down-rec+sim(copy+final<=original)", BDDBottomUpTreeAut::CheckInclusion(y, x, ip), r1, -1); } } }
		}
		catch (std::exception& e) { R->violation("C07/fork/exception", e.what()); }
	}
	if (idx % static_cast<uint64_t>(R->param("cli_every", 200)) == 0)
	{
		std::string fa = R->outdir + "/" + R->tag + ".A.txt", fb = R->outdir + "/" + R->tag + ".B.txt"; writeFile(fa, sa); writeFile(fb, sb);
		struct C { const char* repr; const char* opt; const char* name; bool heavy; } cs[] = {
			{"bdd-td", "dir=down,rec=yes,optC=no", "cli-bdd-td/down-rec", true}, {"bdd-td", "dir=down,rec=yes,optC=yes", "cli-bdd-td/down-rec-opt", true},
			{"bdd-bu", "dir=up", "cli-bdd-bu/up", false}, {"bdd-bu", "dir=down,rec=yes,sim=yes", "cli-bdd-bu/down-rec+sim", false}};
		for (auto& c : cs)
		{
			if (c.heavy && !small) continue;
			R->phase(c.name); int rc = 0; std::string out = runVata(std::string("-r ") + c.repr + " -o " + c.opt + " incl " + fa + " " + fb, rc);
			if (rc != 0 || (out.compare(0, 1, "1") != 0 && out.compare(0, 1, "0") != 0)) R->violation(std::string("C07/") + c.name + "/cli-failed", "exit " + vh::str(rc) + ": " + out.substr(0, 300));
			else judge("C07", c.name, out[0] == '1', ref, expl);
		}
	}
	if (vh::splitmix64(idx * 11 + 5) % 16 == 0)
	{
		R->phase("bdd/unimplemented");
		SharedDict sd; auto x = loadText<BDDBottomUpTreeAut>(sa, sd), y = loadText<BDDBottomUpTreeAut>(sb, sd);
		SharedDict sd2; auto tx = loadText<BDDTopDownTreeAut>(sa, sd2), ty = loadText<BDDTopDownTreeAut>(sb, sd2);
		expectNotImplemented("C07", "bdd-bu/down-rec", ref, [&] { return BDDBottomUpTreeAut::CheckInclusion(x, y, mkParam(SELS[4])); });
		expectNotImplemented("C07", "bdd-bu/down-nonrec", ref, [&] { return BDDBottomUpTreeAut::CheckInclusion(x, y, mkParam(SELS[2])); });
		expectNotImplemented("C07", "bdd-bu/down-rec-opt+sim", ref, [&] { return BDDBottomUpTreeAut::CheckInclusion(x, y, mkParam(SELS[7])); });
		expectNotImplemented("C07", "bdd-bu/down-rec-opt", ref, [&] { return BDDBottomUpTreeAut::CheckInclusion(x, y, mkParam(SELS[6])); });
		expectNotImplemented("C07", "bdd-td/up", ref, [&] { return BDDTopDownTreeAut::CheckInclusion(tx, ty, mkParam(SELS[0])); });
		expectNotImplemented("C07", "bdd-td/down-nonrec", ref, [&] { return BDDTopDownTreeAut::CheckInclusion(tx, ty, mkParam(SELS[2])); });
	}
}

int main(int argc, char** argv)
{
	vh::Run run(argc, argv); R = &run;
#ifdef HAVE_VERIF_HOOKS
	VATA::Verif::ReportHook() = onAudit;
	run.count("memo-audit-hook-installed");
#endif
	void (*fn)(uint64_t, vh::Rng&) = nullptr;
	if (run.prop == "C01") fn = caseC01; else if (run.prop == "C07") fn = caseC07;
	else { fprintf(stderr, "mon_incl: unknown property %s\n", run.prop.c_str()); return 2; }
	uint64_t idx;
	while (run.next(idx)) { vh::Rng g = run.rng(idx); vu::insertionRng() = &g; fn(idx, g); }
#ifdef HAVE_VERIF_HOOKS
	for (int i = 0; i < VATA::Verif::NUM_COUNTERS; ++i) if (VATA::Verif::Counters()[i]) run.count(std::string("reach:") + VATA::Verif::CounterName(i), static_cast<long>(VATA::Verif::Counters()[i]));
#endif
	return run.finish();
}
