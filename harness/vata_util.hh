// Conversions between the reference structures (rm::RTA, rm::RFA) and libvata's automata.
#pragma once
#include <vata/explicit_tree_aut.hh>
#include <vata/explicit_finite_aut.hh>
#include <vata/bdd_bu_tree_aut.hh>
#include <vata/bdd_td_tree_aut.hh>
#include <vata/parsing/timbuk_parser.hh>
#include <vata/serialization/timbuk_serializer.hh>
#include "refmodel.hh"
#include "common.hh"
#include <sys/wait.h>
#include <signal.h>

namespace vu {
using namespace VATA;
using rm::RTA; using rm::RRule; using rm::Alpha; using rm::St; using rm::RFA;
typedef ExplicitTreeAut Aut;

inline Parsing::TimbukParser& parser() { static Parsing::TimbukParser p; return p; }
inline Serialization::TimbukSerializer& serializer() { static Serialization::TimbukSerializer s; return s; }

// An on-the-fly alphabet private to one case, symbols "s<i>" registered so that symbol
// number == index in `al` (registration order can be permuted: then `num` gives the numbers).
struct CaseAlphabet
{
	Aut::AlphabetType alpha;
	std::vector<size_t> num;  // index in al -> library symbol number
	Aut::AbstractAlphabet::FwdTranslatorPtr tr;   // the translator the symbols were registered through, kept alive
	explicit CaseAlphabet(const Alpha& al, const std::vector<int>* order = nullptr) : alpha(new Aut::OnTheFlyAlphabet), num(al.rank.size(), static_cast<size_t>(-1)), tr()
	{
		tr = alpha->GetSymbolTransl();
		std::vector<int> ord;
		if (order) ord = *order; else for (size_t i = 0; i < al.rank.size(); ++i) ord.push_back(static_cast<int>(i));
		for (int i : ord) if (al.rank[i] >= 0) num[i] = (*tr)(Aut::StringRank("s" + std::to_string(i), al.rank[i]));
	}
	// the alphabet grows after it has been used: one more symbol, registered through the translator obtained at
	// the beginning (kept == true) or through a new one
	int extend(Alpha& al, int rank, bool kept)
	{
		int i = static_cast<int>(al.rank.size()); al.rank.push_back(rank);
		if (kept) num.push_back((*tr)(Aut::StringRank("s" + std::to_string(i), rank)));
		else { auto t = alpha->GetSymbolTransl(); num.push_back((*t)(Aut::StringRank("s" + std::to_string(i), rank))); }
		return i;
	}
};

// When a monitor sets this to the PRNG of the current case, automata built through the public
// mutators get their rules and final states inserted in a random order (two thirds of the time):
// internal hash containers then iterate in orders that sorted insertion never produces.
inline vh::Rng*& insertionRng() { static vh::Rng* r = nullptr; return r; }

// build through the public mutators (AddTransition / SetStateFinal)
inline Aut mkExpl(const RTA& a, CaseAlphabet& ca, const std::vector<RRule>* order = nullptr)
{
	Aut x; x.SetAlphabet(ca.alpha);
	auto add = [&](const RRule& r) { std::vector<size_t> ch(r.ch.begin(), r.ch.end()); x.AddTransition(ch, ca.num[r.sym], r.par); };
	std::vector<RRule> rules; if (order) rules = *order; else rules.assign(a.rules.begin(), a.rules.end());
	std::vector<St> fin(a.fin.begin(), a.fin.end());
	vh::Rng* g = insertionRng();
	if (g && g->chance(2, 3)) { if (!order) std::shuffle(rules.begin(), rules.end(), *g); std::shuffle(fin.begin(), fin.end(), *g); }
	bool finalsFirst = g && g->chance(1, 4);
	if (finalsFirst) for (St f : fin) x.SetStateFinal(f);
	for (auto& r : rules) add(r);
	if (!finalsFirst) for (St f : fin) x.SetStateFinal(f);
	return x;
}

// read back through iteration; symbol numbers are translated back to indices of `ca`
inline RTA readExpl(const Aut& x, const CaseAlphabet* ca = nullptr)
{
	RTA o;
	for (auto t : x)
	{
		RRule r; size_t s = t.GetSymbol(); r.sym = static_cast<int>(s);
		if (ca) { r.sym = -1; for (size_t i = 0; i < ca->num.size(); ++i) if (ca->num[i] == s) r.sym = static_cast<int>(i); if (r.sym < 0) r.sym = 1000000 + static_cast<int>(s); }
		for (auto c : t.GetChildren()) r.ch.push_back(c);
		r.par = t.GetParent(); o.rules.insert(r);
	}
	for (auto f : x.GetFinalStates()) o.fin.insert(f);
	return o;
}

// A weak string->state translator with a counter shared by all automata loaded through it
// (one StateDict per load would restart numbering at 0; two loads through one StateDict is a
// harness mistake — DESIGN.md §8).
struct SharedDict
{
	AutBase::StateDict d; size_t cnt = 0; AutBase::StringToStateTranslWeak tr;
	SharedDict() : d(), tr(d, [this](const std::string&) { return cnt++; }) {}
};

template <class A> A loadText(const std::string& s) { A a; a.LoadFromString(parser(), s); return a; }
template <class A> A loadText(const std::string& s, SharedDict& sd) { A a; a.LoadFromString(parser(), s, sd.tr); return a; }

// Parse a Timbuk dump into an RTA. State names are mapped to numbers by `ids` (stable across
// calls when the same map is passed); symbols must be named s<i>.
// when a monitor sets this to the alphabet of the current case, fromDump resolves overloaded symbol names by arity
inline const Alpha*& dumpAlphabet() { static const Alpha* a = nullptr; return a; }
inline RTA fromDump(const std::string& text, std::map<std::string, St>& ids)
{
	auto d = parser().ParseString(text); RTA r;
	auto id = [&](const std::string& n) { auto it = ids.find(n); if (it != ids.end()) return it->second; St v = ids.size(); ids[n] = v; return v; };
	for (auto& f : d.finalStates) r.fin.insert(id(f));
	for (auto& t : d.transitions)
	{
		RRule q; q.sym = (t.second.size() > 1 && t.second[0] == 's') ? atoi(t.second.c_str() + 1) : -1;
		for (auto& c : t.first) q.ch.push_back(id(c)); q.par = id(t.third);
		if (dumpAlphabet() && q.sym >= 0) q.sym = dumpAlphabet()->resolve(q.sym, q.ch.size());
		r.rules.insert(q);
	}
	return r;
}
template <class A> RTA observe(const A& x, std::map<std::string, St>& ids) { return fromDump(x.DumpToString(serializer()), ids); }
template <class A> RTA observe(const A& x) { std::map<std::string, St> ids; return observe(x, ids); }

// ---------------------------------------------------------------- NFAs
typedef ExplicitFiniteAut FA;

inline std::string faToTimbuk(const RFA& a, int nsym, const std::string& name = "A", const char* q = "q")
{
	std::ostringstream os; os << "Ops x:0"; for (int i = 0; i < nsym; ++i) os << " a" << i << ":1";
	os << "\nAutomaton " << name << "\nStates";
	for (St s : a.states()) os << " " << q << s;
	os << "\nFinal States"; for (St f : a.fin) os << " " << q << f;
	os << "\nTransitions\n";
	for (St s : a.start) os << "x -> " << q << s << "\n";
	for (auto& t : a.tr) os << "a" << std::get<1>(t) << "(" << q << std::get<0>(t) << ") -> " << q << std::get<2>(t) << "\n";
	return os.str();
}
// dump -> RFA; start states are the nullary rules; symbols a<i>
inline RFA faFromDump(const std::string& text, std::map<std::string, St>& ids)
{
	auto d = parser().ParseString(text); RFA r;
	auto id = [&](const std::string& n) { auto it = ids.find(n); if (it != ids.end()) return it->second; St v = ids.size(); ids[n] = v; return v; };
	for (auto& f : d.finalStates) r.fin.insert(id(f));
	for (auto& t : d.transitions)
	{
		if (t.first.empty()) r.start.insert(id(t.third));
		else r.tr.insert(std::make_tuple(id(t.first[0]), atoi(t.second.c_str() + 1), id(t.third)));
	}
	return r;
}
inline RFA faObserve(const FA& x) { std::map<std::string, St> ids; return faFromDump(x.DumpToString(serializer()), ids); }

// canonical text of an RTA (for hashing / samples)
inline std::string canon(const RTA& a)
{
	std::ostringstream os; os << "F{"; for (St f : a.fin) os << f << ","; os << "}R{";
	for (auto& r : a.rules) { os << r.sym << "("; for (St c : r.ch) os << c << ","; os << ")>" << r.par << ";"; }
	os << "}"; return os.str();
}
inline std::string canon(const RFA& a)
{
	std::ostringstream os; os << "S{"; for (St f : a.start) os << f << ","; os << "}F{"; for (St f : a.fin) os << f << ","; os << "}T{";
	for (auto& t : a.tr) os << std::get<0>(t) << "-" << std::get<1>(t) << ">" << std::get<2>(t) << ";";
	os << "}"; return os.str();
}
inline std::string canon(const Alpha& al) { std::ostringstream os; os << "Σ["; for (int r : al.rank) os << r << ","; os << "]"; return os.str(); }

// ---------------------------------------------------------------- the command-line tool
// `vata` built from the same tree in the same variant (cli/ is part of the ninja graph)
inline std::string vataPath()
{
	char buf[4096]; ssize_t n = readlink("/proc/self/exe", buf, sizeof buf - 1); if (n <= 0) return "vata";
	buf[n] = 0; std::string p(buf); size_t sl = p.rfind('/'); return p.substr(0, sl) + "/cli/vata";
}
// runs `vata <args>`, returns its standard output (stderr appended); rc = exit status
inline std::string runVata(const std::string& args, int& rc)
{
	// the child gets the CPU budget of a case: this process sleeps in read() meanwhile, so its own
	// CPU-time watchdog would never fire on a child that does not terminate
	std::string cmd = "ulimit -t " + std::to_string(vh::Run::caseTimeoutSec()) + "; exec " + vataPath() + " " + args + " 2>&1"; std::string out; char buf[4096];
	FILE* f = popen(cmd.c_str(), "r"); if (!f) { rc = -1; return ""; }
	size_t n; while ((n = fread(buf, 1, sizeof buf, f)) > 0) out.append(buf, n);
	int st = pclose(f); rc = WIFEXITED(st) ? WEXITSTATUS(st) : 128 + WTERMSIG(st);
	// budget exhausted: the same outcome as an in-process call that exhausts it (status TIMEOUT, exit 3)
	if (WIFSIGNALED(st) && (WTERMSIG(st) == SIGXCPU || WTERMSIG(st) == SIGKILL)) raise(SIGPROF);
	return out;
}
inline void writeFile(const std::string& path, const std::string& text) { FILE* f = fopen(path.c_str(), "w"); if (f) { fwrite(text.data(), 1, text.size(), f); fclose(f); } }

// ---------------------------------------------------------------- case text -> reference structures
// Parses the text a monitor writes as the description of a case (one or two automata in the
// format of rm::toTimbuk / faToTimbuk: symbols s<i>:<rank> or x:0 a<i>:1, states q<n>). Own
// parser — independent of the library's. Returns the number of automata read (0 on failure).
inline int parseCaseText(const std::string& text, Alpha& al, std::vector<RTA>& auts)
{
	std::istringstream is(text); std::string line; RTA cur; bool inTrans = false, have = false; al.rank.clear(); auts.clear();
	auto st = [](const std::string& w) -> St { size_t i = 0; while (i < w.size() && !isdigit(static_cast<unsigned char>(w[i]))) ++i; return strtoull(w.c_str() + i, nullptr, 10); };
	auto symIdx = [](const std::string& w) -> int { if (w == "x") return -2; size_t i = 0; while (i < w.size() && !isdigit(static_cast<unsigned char>(w[i]))) ++i; return atoi(w.c_str() + i); };
	while (std::getline(is, line))
	{
		if (line.compare(0, 3, "Ops") == 0)
		{
			if (have) { auts.push_back(cur); cur = RTA(); } have = true; inTrans = false;
			std::istringstream ls(line.substr(3)); std::string w;
			while (ls >> w) { size_t c = w.find(':'); if (c == std::string::npos) continue; int i = symIdx(w.substr(0, c)); int rk = atoi(w.c_str() + c + 1); if (i < 0) continue; if (static_cast<int>(al.rank.size()) <= i) al.rank.resize(i + 1, -1); al.rank[i] = rk; }
		}
		else if (line.compare(0, 12, "Final States") == 0) { std::istringstream ls(line.substr(12)); std::string w; while (ls >> w) cur.fin.insert(st(w)); }
		else if (line.compare(0, 11, "Transitions") == 0) inTrans = true;
		else if (inTrans && line.find("->") != std::string::npos)
		{
			size_t ar = line.find("->"); std::string lhs = line.substr(0, ar), rhs = line.substr(ar + 2); RRule r;
			size_t pb = lhs.find('('); std::string sym = lhs.substr(0, pb == std::string::npos ? lhs.find_last_not_of(" \t") + 1 : pb);
			r.sym = symIdx(sym); r.par = st(rhs);
			if (pb != std::string::npos) { std::string inner = lhs.substr(pb + 1, lhs.find(')') - pb - 1); std::istringstream cs(inner); std::string w; while (std::getline(cs, w, ',')) if (!w.empty()) r.ch.push_back(st(w)); }
			cur.rules.insert(r);
		}
	}
	if (have) auts.push_back(cur);
	return static_cast<int>(auts.size());
}
// the same for word automata: rules of symbol x (index -2) are start states
inline int parseCaseTextFA(const std::string& text, int& nsym, std::vector<RFA>& auts)
{
	Alpha al; std::vector<RTA> ts; int n = parseCaseText(text, al, ts); auts.clear(); nsym = static_cast<int>(al.rank.size()); if (nsym < 1) nsym = 1;
	for (auto& t : ts) { RFA f; f.fin = t.fin; for (auto& r : t.rules) { if (r.sym == -2 || r.ch.empty()) f.start.insert(r.par); else f.tr.insert(std::make_tuple(r.ch[0], r.sym, r.par)); } auts.push_back(f); }
	return n;
}
inline std::string slurpFile(const std::string& p) { FILE* f = fopen(p.c_str(), "rb"); if (!f) return ""; std::string s; char buf[65536]; size_t n; while ((n = fread(buf, 1, sizeof buf, f)) > 0) s.append(buf, n); fclose(f); return s; }

} // namespace vu
