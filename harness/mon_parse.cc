// C13: Timbuk text round trip and robustness of the parser and the four loaders.
//  (a) generated descriptions:  Parse(Serialize(d)) == d  on final states and rules
//  (b) every encoding:          load -> dump -> load -> dump gives equal descriptions under the
//                               same state names
//  (c) arbitrary byte strings:  ParseString and LoadFromString of all four encodings return or
//                               throw something derived from std::exception (a crash, another
//                               exception type or a hang is a violation; crashes and hangs are
//                               seen by the driver through the crash-surviving case file)
#include "vata_util.hh"
#include "gen.hh"
#include <fstream>

using namespace vu;
using VATA::Util::AutDescription;
static vh::Run* R;

static std::string hostileName(vh::Rng& g, bool allowDigitStart = true)
{
	static const char cs[] = "abcXYZ019_.;!#$%&*+/<=?@[]^{|}~'\"\\`";
	int n = g.range(1, 5); std::string s;
	for (int i = 0; i < n; ++i) s += cs[g.below(sizeof(cs) - 1)];
	(void)allowDigitStart;
	static const char* kw[] = {"Ops", "Automaton", "States", "Final", "Transitions"};
	for (auto k : kw) if (s == k) s += "_";
	return s;
}

static AutDescription genDesc(vh::Rng& g, int maxRank, bool hostile)
{
	AutDescription d; d.name = hostile ? hostileName(g) : "A";
	int ns = g.range(1, 4); std::vector<std::pair<std::string, int>> syms;
	for (int i = 0; i < ns; ++i)
	{
		// plain names: s<i>, or now and then a one-letter name (the word-automaton dump itself writes a placeholder
		// start symbol "x": names the code uses for its own purposes must round-trip like any other — seeded change m91)
		std::string n = hostile ? hostileName(g) : (g.chance(1, 4) ? std::string(1, "xabfgyzq"[g.below(8)]) : "s" + std::to_string(i)); int rk = g.range(0, maxRank); bool dup = false;
		// wide rules: up to the largest arity the top-down symbolic encoding supports (6 arity bits: 63), around powers of two
		if (maxRank > 1 && g.chance(1, 10)) { static const int wide[] = {4, 7, 8, 9, 15, 16, 17, 31, 32, 33, 47, 61, 62, 63}; rk = wide[g.below(sizeof(wide) / sizeof(*wide))]; } for (auto& s : syms) if (s.first == n) dup = true; if (dup) continue;
		syms.push_back({n, rk});
		// the symbols section may declare a symbol without a rank (the parser records rank -1 for "Ops a f:2"), or not at all
		int decl = static_cast<int>(g.below(8)); if (decl == 0) d.symbols.insert(std::make_pair(n, -1)); else if (decl != 1) d.symbols.insert(syms.back());
	}
	int nq = g.range(0, 4); std::vector<std::string> sts;
	for (int i = 0; i < nq; ++i) { std::string n = hostile ? hostileName(g) : (g.chance(1, 8) ? std::string(1, "xq01ab"[g.below(6)]) + (i ? std::to_string(i) : "") : "q" + std::to_string(i)); sts.push_back(n); d.states.insert(sts.back()); }
	if (sts.empty()) return d;        // empty sections
	int nf = g.range(0, 2); for (int i = 0; i < nf; ++i) d.finalStates.insert(sts[g.below(nq)]);
	int nr = g.range(0, 6);
	for (int i = 0; i < nr; ++i) { auto& s = syms[g.below(syms.size())]; if (s.second > 3) R->count("wide-rule"); AutDescription::StateTuple ch; for (int j = 0; j < s.second; ++j) ch.push_back(sts[g.below(nq)]); d.transitions.insert(AutDescription::Transition(ch, s.first, sts[g.below(nq)])); }
	return d;
}

// rewrite some nullary rules "a -> q" as "a() -> q" (both forms are legal Timbuk)
static std::string nullaryWithParens(const std::string& txt, vh::Rng& g)
{
	std::istringstream is(txt); std::string line, out; bool trans = false;
	while (std::getline(is, line))
	{
		if (trans && line.find('(') == std::string::npos && g.chance(1, 2)) { size_t p = line.find(" ->"); if (p != std::string::npos) line.insert(p, "()"); }
		if (line.compare(0, 11, "Transitions") == 0) trans = true;
		out += line + "\n";
	}
	return out;
}

// the same description in another legal layout: optional blanks/tabs around the tokens of a rule
// ("sym ( c1 ,\tc2 )  ->  par", "sym( ) -> par"), indentation, trailing blanks, blank lines, CR LF
static std::string relayout(const std::string& txt, vh::Rng& g)
{
	auto ws = [&](int maxn) { std::string w; int n = g.range(0, maxn); for (int i = 0; i < n; ++i) w += g.chance(1, 4) ? '\t' : ' '; return w; };
	std::istringstream is(txt); std::string line, out; bool trans = false;
	while (std::getline(is, line))
	{
		if (!trans || line.find("->") == std::string::npos)
		{
			if (line.compare(0, 11, "Transitions") == 0) trans = true;
			out += line + ws(2) + (g.chance(1, 6) ? "\r\n" : "\n"); if (g.chance(1, 5)) out += ws(3) + "\n"; continue;
		}
		size_t ar = line.find(" -> "); std::string lhs = line.substr(0, ar), rhs = line.substr(ar + 4), nl;
		size_t pb = lhs.find('(');
		if (pb == std::string::npos) { nl = ws(2) + lhs; if (g.chance(1, 2)) nl += ws(1) + "(" + ws(2) + ")"; }
		else
		{
			nl = ws(2) + lhs.substr(0, pb) + ws(1) + "(" + ws(2); std::string inner = lhs.substr(pb + 1, lhs.size() - pb - 2);
			for (char c : inner) { if (c == ',') nl += ws(1) + "," + ws(2); else nl += c; }
			nl += ws(2) + ")";
		}
		out += nl + ws(2) + "->" + ws(2) + rhs + ws(2) + (g.chance(1, 6) ? "\r\n" : "\n");
	}
	return out;
}

template <class A>
static void roundTripEncoding(const char* enc, const std::string& txt)
{
	std::string k = std::string("C13/") + enc;
	R->phase(std::string(enc) + " load/dump/load/dump");
	try
	{
		A a; AutBase::StateDict sd; a.LoadFromString(parser(), txt, sd); std::string t2 = a.DumpToString(serializer(), sd);
		A b; AutBase::StateDict sd2; b.LoadFromString(parser(), t2, sd2); std::string t3 = b.DumpToString(serializer(), sd2);
		AutDescription d2 = parser().ParseString(t2), d3 = parser().ParseString(t3);
		R->count(std::string("roundtrip:") + enc);
		if (!(d2.transitions == d3.transitions)) R->violation(k + "/dump-load-dump/rules-differ", "first dump:\n" + t2 + "second dump:\n" + t3);
		else if (!(d2.finalStates == d3.finalStates)) R->violation(k + "/dump-load-dump/final-states-differ", "first dump:\n" + t2 + "second dump:\n" + t3);
		AutDescription d1 = parser().ParseString(txt);
		// the automaton was loaded from txt: its dump must show the rules and final states of txt
		if (!(d1.transitions == d2.transitions)) R->violation(k + "/load-dump/rules-differ-from-text", "text:\n" + txt + "dump:\n" + t2);
		else if (!(d1.finalStates == d2.finalStates)) R->violation(k + "/load-dump/final-states-differ-from-text", "text:\n" + txt + "dump:\n" + t2);
	}
	catch (std::exception& e) { R->violation(k + "/roundtrip/exception", std::string(e.what()) + "\n" + txt); }
}

// the symbolic encodings also offer a "symbolic" serialisation (symbols written as bit strings):
// load text, dump symbolically, load that symbolically, dump normally == first normal dump
template <class A>
static void roundTripSymbolic(const char* enc, const std::string& txt)
{
	std::string k = std::string("C13/") + enc;
	R->phase(std::string(enc) + " symbolic dump/load");
	try
	{
		A a; AutBase::StateDict sd; a.LoadFromString(parser(), txt, sd); std::string t2 = a.DumpToString(serializer(), sd);
		std::string ts = a.DumpToString(serializer(), sd, "symbolic");
		A b; AutBase::StateDict sd2; b.LoadFromString(parser(), ts, sd2, "symbolic");
		std::string t3 = b.DumpToString(serializer(), sd2), ts2 = b.DumpToString(serializer(), sd2, "symbolic");
		AutDescription d2 = parser().ParseString(t2), d3 = parser().ParseString(t3), s1 = parser().ParseString(ts), s2 = parser().ParseString(ts2);
		R->count(std::string("roundtrip-symbolic:") + enc);
		if (!(d2.transitions == d3.transitions)) R->violation(k + "/symbolic-dump-load/rules-differ", "dump:\n" + t2 + "symbolic dump:\n" + ts + "dump after loading the symbolic dump:\n" + t3);
		else if (!(d2.finalStates == d3.finalStates)) R->violation(k + "/symbolic-dump-load/final-states-differ", "dump:\n" + t2 + "symbolic dump:\n" + ts + "dump after loading the symbolic dump:\n" + t3);
		if (!(s1.transitions == s2.transitions) || !(s1.finalStates == s2.finalStates)) R->violation(k + "/symbolic-dump-load-dump/differs", "first symbolic dump:\n" + ts + "second:\n" + ts2);
		if (!d2.transitions.empty() && s1.transitions.empty()) R->violation(k + "/symbolic-dump/empty", ts);
		{	// the top-down encoding cannot dump symbolically but loads symbolic text
			R->phase("bdd-td load of a symbolic dump");
			BDDTopDownTreeAut c; AutBase::StateDict sd3; c.LoadFromString(parser(), txt, sd3); std::string t4 = c.DumpToString(serializer(), sd3);
			BDDTopDownTreeAut d; AutBase::StateDict sd4; d.LoadFromString(parser(), ts, sd4, "symbolic"); std::string t5 = d.DumpToString(serializer(), sd4);
			AutDescription d4 = parser().ParseString(t4), d5 = parser().ParseString(t5);
			R->count("roundtrip-symbolic:bdd-td-load");
			if (!(d4.transitions == d5.transitions)) R->violation("C13/bdd-td/symbolic-load/rules-differ", "dump after normal load:\n" + t4 + "symbolic text:\n" + ts + "dump after symbolic load:\n" + t5);
			else if (!(d4.finalStates == d5.finalStates)) R->violation("C13/bdd-td/symbolic-load/final-states-differ", "dump after normal load:\n" + t4 + "symbolic text:\n" + ts + "dump after symbolic load:\n" + t5);
		}
	}
	catch (VATA::NotImplementedException&) { R->count(std::string("symbolic-serialisation-not-implemented:") + enc); }
	catch (std::exception& e) { R->violation(k + "/symbolic-roundtrip/exception", std::string(e.what()) + "\n" + txt); }
}

static void caseRoundTrip(vh::Rng& g)
{
	bool hostile = g.chance(2, 3);
	AutDescription d = genDesc(g, 3, hostile);
	std::string txt = serializer().Serialize(d);
	R->desc(txt); R->count("roundtrip-cases");
	R->phase("Parse(Serialize(d))");
	try
	{
		AutDescription e = parser().ParseString(txt);
		if (!(e.transitions == d.transitions)) R->violation("C13/description/rules-differ", txt);
		else if (!(e.finalStates == d.finalStates)) R->violation("C13/description/final-states-differ", txt);
		if (!(e == d)) R->count("info:description-not-fully-equal(symbols/states/name)");
		std::string t2 = nullaryWithParens(txt, g);
		if (t2 != txt) { R->count("nullary-with-parentheses"); AutDescription f = parser().ParseString(t2); if (!(f.transitions == d.transitions) || !(f.finalStates == d.finalStates)) R->violation("C13/description/nullary-parentheses-form-differs", t2); }
		{	// second generation: what the parser produced is itself a description; its serialisation must parse back to it
			std::string t4 = txt; size_t op = t4.find("Ops"); size_t eol = t4.find('\n');
			if (op == 0 && eol != std::string::npos)
			{	// drop the rank of some Ops tokens ("Ops a f:2" is legal)
				std::string opsLine = t4.substr(0, eol), rebuilt; std::istringstream ls(opsLine); std::string w;
				while (ls >> w) { size_t c = w.rfind(':'); if (c != std::string::npos && c > 0 && g.chance(1, 3)) w = w.substr(0, c); rebuilt += (rebuilt.empty() ? "" : " ") + w; }
				t4 = rebuilt + t4.substr(eol);
			}
			AutDescription d1 = parser().ParseString(t4); R->count("second-generation-roundtrips");
			std::string t5 = serializer().Serialize(d1); R->desc(t5);
			AutDescription d2 = parser().ParseString(t5);
			if (!(d2.transitions == d1.transitions) || !(d2.finalStates == d1.finalStates)) R->violation("C13/description/second-generation-differs", t4 + "---\n" + t5);
		}
		for (int v = 0; v < 2; ++v)
		{	// layout variants of the same text must parse to the same description
			std::string t3 = relayout(txt, g); R->count("layout-variants"); R->desc(t3);
			AutDescription f = parser().ParseString(t3);
			if (!(f.transitions == d.transitions)) R->violation("C13/description/layout-variant-rules-differ", t3);
			else if (!(f.finalStates == d.finalStates)) R->violation("C13/description/layout-variant-final-states-differ", t3);
		}
		R->desc(txt);
	}
	catch (std::exception& ex) { R->violation("C13/description/exception", std::string(ex.what()) + "\n" + txt); }
	if (!d.transitions.empty()) { R->nontrivial(vh::fnv("rt" + txt)); if (R->wantSample()) R->sample("round trip:\n" + txt); }
	roundTripEncoding<ExplicitTreeAut>("expl", txt);
	// the symbolic encodings have a process-wide alphabet with 16-bit codes: only plain names there
	if (!hostile) { roundTripEncoding<BDDBottomUpTreeAut>("bdd-bu", txt); roundTripEncoding<BDDTopDownTreeAut>("bdd-td", txt); roundTripSymbolic<BDDBottomUpTreeAut>("bdd-bu", txt); roundTripSymbolic<BDDTopDownTreeAut>("bdd-td", txt); }
	{	// word automata: rank <= 1, nullary rules are start states
		AutDescription w = genDesc(g, 1, hostile); std::string wt = serializer().Serialize(w); R->desc(wt);
		roundTripEncoding<ExplicitFiniteAut>("expl_fa", wt);
	}
}

// ----------------------------------------------------------------- automata that were not loaded
// "every automaton in any of the four encodings": automata built through the mutators (sparse state numbers) and
// results of operations, dumped without a dictionary (states named by their numbers), with a caller-made
// dictionary of hostile names, loaded again and dumped again.  For the explicit tree encoding the independent side
// is what iteration yields (a dump that omits something is stable under dump -> load -> dump: lesson of m48 / D14).
typedef std::set<std::pair<std::pair<std::vector<std::string>, std::string>, std::string>> RuleSet;
static RuleSet rulesOf(const AutDescription& d) { RuleSet r; for (auto& t : d.transitions) r.insert(std::make_pair(std::make_pair(t.first, t.second), t.third)); return r; }
static std::set<std::string> finalsOf(const AutDescription& d) { return std::set<std::string>(d.finalStates.begin(), d.finalStates.end()); }

template <class A>
static void dumpLoadDump(const std::string& k, const A& r, const std::string& what)
{
	R->phase(k + " dump/load/dump of " + what); R->count("built:" + k);
	try
	{
		std::string t1 = r.DumpToString(serializer()); R->desc(t1);
		A y; AutBase::StateDict sd; y.LoadFromString(parser(), t1, sd); std::string t2 = y.DumpToString(serializer(), sd);
		AutDescription d1 = parser().ParseString(t1), d2 = parser().ParseString(t2);
		if (rulesOf(d1) != rulesOf(d2)) R->violation("C13/" + k + "/result/dump-load-dump/rules-differ", what + "\nfirst dump:\n" + t1 + "second dump:\n" + t2);
		else if (finalsOf(d1) != finalsOf(d2)) R->violation("C13/" + k + "/result/dump-load-dump/final-states-differ", what + "\nfirst dump:\n" + t1 + "second dump:\n" + t2);
	}
	catch (std::exception& e) { R->violation("C13/" + k + "/result/exception", std::string(e.what()) + "\n" + what); }
}

static void caseRoundTripBuilt(vh::Rng& g)
{
	Alpha al = gen::randAlpha(g); std::string kind;
	std::vector<St> st = gen::numbering(g, g.range(1, 5), static_cast<int>(g.below(4)));
	RTA a = gen::randProductiveTA(g, al, st, g.range(1, 8)), b = gen::randProductiveTA(g, al, gen::numbering(g, g.range(1, 4), static_cast<int>(g.below(3))), g.range(1, 6));
	if (g.chance(1, 3)) a.fin.insert(st[g.below(st.size())] + 50);        // final state without rules
	R->desc(rm::toTimbuk(a, al, "A") + rm::toTimbuk(b, al, "B")); R->count("built-cases");
	insertionRng() = &g;
	{	// explicit tree automata
		// the process-wide default alphabet (results of operations carry it whatever their operands had): symbols
		// s<i> registered with their rank; (name, rank) pairs are distinct keys, so s1/1 and s1/2 may coexist
		CaseAlphabet ca(al); { Aut tmp; ca.alpha = tmp.GetAlphabet(); auto tr = ca.alpha->GetSymbolTransl(); for (size_t i = 0; i < al.rank.size(); ++i) if (al.rank[i] >= 0) ca.num[i] = (*tr)(Aut::StringRank("s" + std::to_string(i), al.rank[i])); }
		Aut x = mkExpl(a, ca), y = mkExpl(b, ca); Aut r; std::string what;
		R->phase("expl built: operation");
		switch (g.below(8))
		{
			case 0: r = x; what = "built through AddTransition/SetStateFinal"; break;
			case 1: r = Aut::Union(x, y); what = "Union"; break;
			case 2: r = Aut::Intersection(x, y); what = "Intersection"; break;
			case 3: r = x.RemoveUselessStates(); what = "RemoveUselessStates"; break;
			case 4: r = x.RemoveUnreachableStates(); what = "RemoveUnreachableStates"; break;
			case 5: r = x.Reduce(); what = "Reduce"; break;
			case 6: r = x.GetCandidateTree(); what = "GetCandidateTree"; break;
			default: { Aut c(x); c.AddTransition({}, ca.num[0], st[0] + 7); c.SetStateFinal(st[0] + 7); r = c; what = "copy modified in place"; } break;
		}
		R->phase("expl built: dump vs iteration (" + what + ")"); R->count("built:expl");
		try
		{
			RTA it = readExpl(r, &ca);
			RuleSet want; std::set<std::string> wantFin; std::set<St> used;
			for (auto& q : it.rules) { std::vector<std::string> ch; for (St c : q.ch) { ch.push_back(vh::str(c)); used.insert(c); } used.insert(q.par); want.insert(std::make_pair(std::make_pair(ch, "s" + vh::str(q.sym)), vh::str(q.par))); }
			for (St f : it.fin) { wantFin.insert(vh::str(f)); used.insert(f); }
			std::string t1 = r.DumpToString(serializer()); AutDescription d1 = parser().ParseString(t1);
			if (rulesOf(d1) != want) R->violation("C13/expl/result/dump-differs-from-iteration/rules", what + "\n" + t1);
			else if (finalsOf(d1) != wantFin) R->violation("C13/expl/result/dump-differs-from-iteration/final-states", what + "\n" + t1);
			// a caller-made dictionary with hostile names: the dump must be the image of the rules under it
			AutBase::StateDict sd; std::map<St, std::string> nm; std::set<std::string> taken;
			for (St q : used) { std::string n; do { n = hostileName(g); } while (!taken.insert(n).second); nm[q] = n; sd.insert(std::make_pair(n, static_cast<size_t>(q))); }
			std::string t2 = r.DumpToString(serializer(), sd); R->desc(t2); AutDescription d2 = parser().ParseString(t2);
			RuleSet want2; std::set<std::string> wantFin2;
			for (auto& q : it.rules) { std::vector<std::string> ch; for (St c : q.ch) ch.push_back(nm[c]); want2.insert(std::make_pair(std::make_pair(ch, "s" + vh::str(q.sym)), nm[q.par])); }
			for (St f : it.fin) wantFin2.insert(nm[f]);
			if (rulesOf(d2) != want2) R->violation("C13/expl/result/named-dump-differs-from-iteration/rules", what + "\n" + t2);
			else if (finalsOf(d2) != wantFin2) R->violation("C13/expl/result/named-dump-differs-from-iteration/final-states", what + "\n" + t2);
			// load the named dump: same rules and final states under the same names, read by iteration
			Aut z; z.SetAlphabet(ca.alpha); AutBase::StateDict sd3; z.LoadFromString(parser(), t2, sd3);
			RTA iz = readExpl(z, &ca); RuleSet got; std::set<std::string> gotFin;
			auto back = [&](St q) { auto f = sd3.FindBwd(static_cast<size_t>(q)); return f == sd3.EndBwd() ? std::string("?") + vh::str(q) : f->second; };
			for (auto& q : iz.rules) { std::vector<std::string> ch; for (St c : q.ch) ch.push_back(back(c)); got.insert(std::make_pair(std::make_pair(ch, "s" + vh::str(q.sym)), back(q.par))); }
			for (St f : iz.fin) gotFin.insert(back(f));
			if (got != want2) R->violation("C13/expl/result/reloaded-rules-differ", what + "\n" + t2);
			else if (gotFin != wantFin2) R->violation("C13/expl/result/reloaded-final-states-differ", what + "\n" + t2);
			if (!it.rules.empty()) R->nontrivial(vh::fnv("built" + t1));
		}
		catch (std::exception& e) { R->violation("C13/expl/result/exception", std::string(e.what()) + "\n" + what); }
		dumpLoadDump<Aut>("expl", r, what);
	}
	insertionRng() = nullptr;
	{	// symbolic encodings: results of operations (there is no read API besides the dump)
		std::string ta = rm::toTimbuk(a, al, "A", "p"), tb = rm::toTimbuk(b, al, "B", "r");
		int op = static_cast<int>(g.below(5));
		try
		{
			{ SharedDict sd; BDDBottomUpTreeAut x = loadText<BDDBottomUpTreeAut>(ta, sd), y = loadText<BDDBottomUpTreeAut>(tb, sd); R->phase("bdd-bu built: operation");
			  switch (op) { case 0: dumpLoadDump("bdd-bu", BDDBottomUpTreeAut::Union(x, y), "Union"); break; case 1: dumpLoadDump("bdd-bu", BDDBottomUpTreeAut::Intersection(x, y), "Intersection"); break;
			                case 2: dumpLoadDump("bdd-bu", x.RemoveUselessStates(), "RemoveUselessStates"); break; case 3: dumpLoadDump("bdd-bu", x.RemoveUnreachableStates(), "RemoveUnreachableStates"); break;
			                default: dumpLoadDump("bdd-td", x.GetTopDownAut(), "GetTopDownAut"); break; } }
			{ SharedDict sd; BDDTopDownTreeAut x = loadText<BDDTopDownTreeAut>(ta, sd), y = loadText<BDDTopDownTreeAut>(tb, sd); R->phase("bdd-td built: operation");
			  switch (op) { case 0: dumpLoadDump("bdd-td", BDDTopDownTreeAut::Union(x, y), "Union"); break; case 1: dumpLoadDump("bdd-td", BDDTopDownTreeAut::Intersection(x, y), "Intersection"); break;
			                case 2: dumpLoadDump("bdd-td", x.RemoveUselessStates(), "RemoveUselessStates"); break; case 3: dumpLoadDump("bdd-td", x.RemoveUnreachableStates(), "RemoveUnreachableStates"); break;
			                default: dumpLoadDump("bdd-td", BDDTopDownTreeAut::UnionDisjointStates(x, y), "UnionDisjointStates"); break; } }
		}
		catch (std::exception& e) { R->violation("C13/bdd/result/exception", std::string(e.what()) + "\n" + ta + tb); }
	}
	{	// word automata: results of operations
		int nsym = g.range(1, 3); RFA fa = gen::randLiveFA(g, 5, 8, nsym), fb = gen::randLiveFA(g, 4, 6, nsym);
		std::string ta = faToTimbuk(fa, nsym, "A", "p"), tb = faToTimbuk(fb, nsym, "B", "r"); R->desc(ta + tb);
		try
		{
			SharedDict sd; ExplicitFiniteAut x = loadText<ExplicitFiniteAut>(ta, sd), y = loadText<ExplicitFiniteAut>(tb, sd); R->phase("expl_fa built: operation");
			switch (g.below(7))
			{
				case 0: dumpLoadDump("expl_fa", ExplicitFiniteAut::Union(x, y), "Union"); break;
				case 1: dumpLoadDump("expl_fa", ExplicitFiniteAut::Intersection(x, y), "Intersection"); break;
				case 2: dumpLoadDump("expl_fa", x.Reverse(), "Reverse"); break;
				case 3: dumpLoadDump("expl_fa", x.RemoveUselessStates(), "RemoveUselessStates"); break;
				case 4: dumpLoadDump("expl_fa", x.RemoveUnreachableStates(), "RemoveUnreachableStates"); break;
				case 5: dumpLoadDump("expl_fa", x.GetCandidateTree(), "GetCandidateTree"); break;
				default: dumpLoadDump("expl_fa", ExplicitFiniteAut::UnionDisjointStates(x, y), "UnionDisjointStates"); break;
			}
		}
		catch (std::exception& e) { R->violation("C13/expl_fa/result/exception", std::string(e.what()) + "\n" + ta + tb); }
	}
}

// ----------------------------------------------------------------- robustness
static std::vector<std::string>& corpus()
{
	static std::vector<std::string> c;
	if (c.empty())
	{
		c.push_back("Ops a:0 b:1 c:2\nAutomaton A\nStates q0 q1\nFinal States q1\nTransitions\na -> q0\nb(q0) -> q1\nc(q0,q1) -> q1\n");
		c.push_back("Ops a:0 b:1\n\nAutomaton  X \nStates q0:0 q1:0\nFinal States\nTransitions\na() -> q0\nb( q0 ) -> q1\n");
		c.push_back("Ops\nAutomaton A\nStates\nFinal States\nTransitions\n");
		c.push_back("Ops x:0 a0:1 a1:1\nAutomaton N\nStates q0 q1 q2\nFinal States q2\nTransitions\nx -> q0\na0(q0) -> q1\na1(q1) -> q2\na0(q2) -> q2\n");
		const char* files[] = {"/repo/automata/small_timbuk/A0053", "/repo/automata/small_timbuk/A0054", "/repo/automata/add_trans_timbuk.txt", "/repo/automata/emptiness_timbuk.txt", "/repo/automata/fail_timbuk/fail1"};
		for (auto f : files) { std::ifstream i(f); if (i) { std::stringstream s; s << i.rdbuf(); if (s.str().size() < 20000) c.push_back(s.str()); } }
	}
	return c;
}

static std::string mutateText(vh::Rng& g, std::string s)
{
	static const char* tokens[] = {"Transitions\n", "Ops ", "Automaton ", "States ", "Final States ", "->", " -> ", "(", ")", ",", ":", "\n", " ", "\t", "()", "a:999999999999", ":-1", ":0", "q0", "\r\n", "((((", "))))", ",,", "->->", std::string(1, '\0').c_str()};
	int k = g.range(1, 5);
	for (int j = 0; j < k; ++j)
	{
		if (s.empty()) { s = "x"; }
		size_t p = g.below(s.size());
		switch (g.below(12))
		{
			case 0: s[p] = static_cast<char>(g.below(256)); break;
			case 1: s.erase(p, 1 + g.below(6)); break;
			case 2: s.insert(p, tokens[g.below(sizeof(tokens) / sizeof(*tokens) - 1)]); break;
			case 3: s.insert(p, s.substr(g.below(s.size()), g.below(30))); break;
			case 4: s[p] = '\n'; break;
			case 5: s.insert(p, 1, static_cast<char>(0x80 + g.below(128))); break;
			case 6: s.insert(p, 1, '\0'); break;
			case 7: { size_t q = g.below(s.size()); std::swap(s[p], s[q]); break; }
			case 8: { // duplicate a whole line somewhere else
				size_t b = s.rfind('\n', p); b = (b == std::string::npos) ? 0 : b + 1; size_t e = s.find('\n', p); if (e == std::string::npos) e = s.size(); std::string line = s.substr(b, e - b) + "\n"; s.insert(g.below(s.size()), line); break; }
			case 9: { // cut the text
				s.resize(p); break; }
			case 10: { size_t e = s.find(':', p); if (e != std::string::npos) s.insert(e + 1, g.chance(1, 2) ? "99999999999999999999" : "-"); break; }
			default: s.insert(p, tokens[g.below(sizeof(tokens) / sizeof(*tokens) - 1)]); break;
		}
	}
	return s;
}

static std::string pathological(vh::Rng& g)
{
	std::string s;
	switch (g.below(8))
	{
		case 0: { s = "Ops a:0 f:2\nAutomaton A\nStates"; int n = g.range(1000, 20000); for (int i = 0; i < n; ++i) s += " q" + std::to_string(i % 50); s += "\nFinal States q0\nTransitions\na -> q0\n"; break; }   // very long line
		case 1: { int n = g.range(100, 3000); for (int i = 0; i < n; ++i) s += (i % 3 == 0) ? "Transitions\n" : (i % 3 == 1 ? "Ops a:0\n" : "Automaton A\n"); break; }                                      // thousands of sections
		case 2: { s = "Ops a:0 f:1\nAutomaton A\nStates q\nFinal States q\nTransitions\na -> q\n"; int n = g.range(10, 2000); std::string t = "q"; for (int i = 0; i < n; ++i) t = "f(" + t; s += t + " -> q\n"; break; } // unbalanced, deep
		case 3: { int n = g.range(1, 5000); for (int i = 0; i < n; ++i) s += static_cast<char>(g.below(256)); break; }                                                                                  // random bytes
		case 4: { s = "Ops a:999999999999 b:-5 c:0x10 d:1e3 e: f:: :3\nAutomaton A\nStates q\nFinal States q\nTransitions\na -> q\nb(q) -> q\n"; break; }
		case 5: { s = "Ops a:0 g:2\nAutomaton A\nStates q\nFinal States q\nTransitions\n"; int n = g.range(100, 3000); for (int i = 0; i < n; ++i) s += "g(q,q) -> q\n"; s += "a -> q\n"; break; }
		case 6: { s = "Ops a:0\nAutomaton A\nStates q\nFinal States q\nTransitions\na -> q -> q\na( -> q\na) -> q\n -> q\na ->\n->\n"; s = mutateText(g, s); break; }
		default: { s = std::string(g.range(1, 4000), '\n') + "Ops"; break; }
	}
	return s;
}

static std::set<std::string>& outcomes() { static std::set<std::string> s; return s; }

template <class F>
static bool tryCall(const char* target, F f, std::string& outcome)
{
	R->phase(target);
	try { f(); outcome = std::string(target) + ":ok"; return true; }
	catch (std::exception& e)
	{
		std::string w = e.what(); std::string cls;
		// class of the message (messages echo the input, so only known phrases / leading letters are kept)
		static const char* phrases[] = {"Transitions not specified", "invalid transition", "already parsed", "invalid argument", "Not a finite automaton", "out of range", "Automaton", "Ops", "States", "rank", "arity", "symbol", "translat", "bad_alloc", "length"};
		for (auto p : phrases) if (w.find(p) != std::string::npos) { cls = p; break; }
		if (cls.empty()) for (char c : w) { if (!isalpha(static_cast<unsigned char>(c)) && c != ' ' && c != '_') { if (cls.size() > 8) break; else continue; } cls += c; if (cls.size() >= 24) break; }
		outcome = std::string(target) + ":exception:" + cls; return false;
	}
	catch (...) { outcome = std::string(target) + ":non-standard-exception"; R->violation(std::string("C13/") + target + "/non-standard-exception", "threw something not derived from std::exception"); return false; }
}

static void caseRobust(vh::Rng& g)
{
	std::string in;
	int k = static_cast<int>(g.below(10));
	if (k < 6) { in = mutateText(g, g.pick(corpus())); R->count("robust:mutated-corpus"); }
	else if (k < 8) { AutDescription d = genDesc(g, 3, g.chance(1, 2)); in = mutateText(g, serializer().Serialize(d)); R->count("robust:mutated-generated"); }
	else { in = pathological(g); R->count("robust:pathological"); }
	R->desc(in); R->count("robust-inputs");
	std::string o; bool anyOk = false; std::string vec;
	anyOk |= tryCall("ParseString", [&] { parser().ParseString(in); }, o); outcomes().insert(o); vec += o + "|";
	anyOk |= tryCall("expl.LoadFromString", [&] { ExplicitTreeAut a; a.LoadFromString(parser(), in); }, o); outcomes().insert(o); vec += o + "|";
	anyOk |= tryCall("expl_fa.LoadFromString", [&] { ExplicitFiniteAut a; a.LoadFromString(parser(), in); }, o); outcomes().insert(o); vec += o + "|";
	// symbolic encodings: bounded number of distinct symbol names per process (16-bit codes,
	// process-wide alphabet only grows); names are counted on the parsed description
	static std::set<std::string> bddNames; bool fits = in.size() < 20000;
	if (fits)
	{
		try { AutDescription d = parser().ParseString(in); std::set<std::string> fresh; for (auto& t : d.transitions) { std::string n = t.second + ":" + std::to_string(t.first.size()); if (!bddNames.count(n)) fresh.insert(n); } for (auto& sy : d.symbols) { std::string n = sy.first + ":" + std::to_string(sy.second); if (!bddNames.count(n)) fresh.insert(n); }
		      if (bddNames.size() + fresh.size() > 20000) fits = false; else bddNames.insert(fresh.begin(), fresh.end()); }
		catch (std::exception&) { }
	}
	if (fits)
	{
		anyOk |= tryCall("bdd-bu.LoadFromString", [&] { BDDBottomUpTreeAut a; a.LoadFromString(parser(), in); }, o); outcomes().insert(o); vec += o + "|";
		anyOk |= tryCall("bdd-td.LoadFromString", [&] { BDDTopDownTreeAut a; a.LoadFromString(parser(), in); }, o); outcomes().insert(o); vec += o + "|";
	}
	else R->count("robust:bdd-loaders-skipped(symbol-budget-or-size)");
	if (anyOk) R->count("robust:some-target-accepted");
	{	// the parser and the loaders must not carry anything over from a rejected (or accepted) hostile input: a
		// fixed well-formed text (ranks, states with and without suffix-like names) parses to the same description
		// after every input (history clause; seeded change m74: a conversion stream reused across calls kept its
		// error flags after one malformed rank)
		static AutDescription canary; static std::string canaryText;
		if (canaryText.empty()) { vh::Rng cg(12345); do { canary = genDesc(cg, 3, false); } while (canary.transitions.size() < 3); canaryText = serializer().Serialize(canary); }
		R->phase("canary ParseString after a hostile input"); R->count("robust:canary-parses");
		try
		{
			AutDescription e = parser().ParseString(canaryText);
			if (!(e.transitions == canary.transitions) || !(e.finalStates == canary.finalStates)) R->violation("C13/history/valid-text-parsed-differently-after-hostile-input", in + "\n--- then ---\n" + canaryText);
			if (g.chance(1, 8)) { ExplicitTreeAut a; a.LoadFromString(parser(), canaryText); ExplicitFiniteAut f; try { f.LoadFromString(parser(), canaryText); } catch (std::exception&) { /* rank > 1: not a word automaton */ } }
		}
		catch (std::exception& ex) { R->violation("C13/history/valid-text-rejected-after-hostile-input", std::string(ex.what()) + "\n" + in + "\n--- then ---\n" + canaryText); }
	}
	bool reachedTransitions = in.find("Transitions") != std::string::npos;
	if (anyOk || reachedTransitions) { R->nontrivial(vh::fnv(in)); if (R->wantSample() && in.size() < 400) R->sample("robustness input (" + vec + "):\n" + in); }
}

static void caseC13(uint64_t idx, vh::Rng& g)
{
	// chosen by the case's own PRNG, not by the index: shards take the indices i = k (mod n), and every process must
	// interleave round trips with hostile inputs (a parser that remembers something from a rejected input)
	(void)idx; { uint64_t k = g.below(16); if (k < 2) caseRoundTrip(g); else if (k < 4) caseRoundTripBuilt(g); else caseRobust(g); }
}

int main(int argc, char** argv)
{
	vh::Run run(argc, argv); R = &run;
	if (run.prop != "C13") { fprintf(stderr, "mon_parse: unknown property %s\n", run.prop.c_str()); return 2; }
	uint64_t idx;
	while (run.next(idx)) { vh::Rng g = run.rng(idx); caseC13(idx, g); }
	for (auto& o : outcomes()) run.count("outcome:" + o);
	return run.finish();
}
