#include <vata/bdd_td_tree_aut.hh>
#include <vata/bdd_bu_tree_aut.hh>
#include <vata/parsing/timbuk_parser.hh>
#include <vata/serialization/timbuk_serializer.hh>
#include <iostream>
using namespace VATA;
struct SD { AutBase::StateDict d; size_t cnt=0; AutBase::StringToStateTranslWeak tr; SD():tr(d,[this](const std::string&){return cnt++;}){} };
template<class T> int run(const char* enc){
  Parsing::TimbukParser p; Serialization::TimbukSerializer s; SD sd;
  auto L=[&](const std::string& t){ T a; a.LoadFromString(p,t,sd.tr); return a; };
  T A=L("Ops a:0 b:0 c:0 f:1 g:1\nAutomaton A\nStates q0\nFinal States q0\nTransitions\na -> q0\nf(q0) -> q0\n");
  T B=L("Ops a:0 b:0 c:0 f:1 g:1\nAutomaton B\nStates r0\nFinal States r0\nTransitions\na -> r0\nf(r0) -> r0\n");
  T C=L("Ops a:0 b:0 c:0 f:1 g:1\nAutomaton C\nStates s0\nFinal States s0\nTransitions\nb -> s0\ng(s0) -> s0\n");
  T D=L("Ops a:0 b:0 c:0 f:1 g:1\nAutomaton D\nStates t0\nFinal States t0\nTransitions\nb -> t0\ng(t0) -> t0\n");
  T X=L("Ops a:0 b:0 c:0 f:1 g:1\nAutomaton X\nStates x\nFinal States x\nTransitions\nc -> x\n");
  T I1=T::Intersection(A,B), I2=T::Intersection(C,D);
  std::cout<<enc<<" I1:\n"<<I1.DumpToString(s)<<"I2:\n"<<I2.DumpToString(s)<<"X:\n"<<X.DumpToString(s);
  T R=T::UnionDisjointStates(X,I1);
  std::string i2before=I2.DumpToString(s);
  T R2=T::UnionDisjointStates(I2,X);
  std::cout<<"R2 = UnionDisjointStates(I2,X):\n"<<R2.DumpToString(s)<<"I2 after:\n"<<I2.DumpToString(s);
  return i2before!=I2.DumpToString(s);
}
int main(){ int r=run<BDDTopDownTreeAut>("TD"); std::cout<<"TD operand changed: "<<r<<"\n"; int r2=run<BDDBottomUpTreeAut>("BU"); std::cout<<"BU operand changed: "<<r2<<"\n"; return r||r2; }
