#include <vata/explicit_finite_aut.hh>
#include <vata/parsing/timbuk_parser.hh>
#include <vata/serialization/timbuk_serializer.hh>
#include <vata/util/binary_relation.hh>
#include <iostream>
using namespace VATA;
typedef ExplicitFiniteAut FA;
int main(int argc, char** argv)
{
	Parsing::TimbukParser parser; Serialization::TimbukSerializer ser;
	const char* A = "Ops x:0 a0:1 a1:1\nAutomaton A\nStates p0 p1\nFinal States p0 p1\nTransitions\nx -> p0\na0(p0) -> p1\na1(p0) -> p0\na0(p1) -> p0\n";
	const char* B = "Ops x:0 a0:1 a1:1\nAutomaton B\nStates r0 r1\nFinal States r1\nTransitions\nx -> r0\nx -> r1\na1(r0) -> r1\na0(r1) -> r1\n";
	AutBase::StateDict d; size_t cnt = 0; AutBase::StringToStateTranslWeak tr(d, [&cnt](const std::string&) { return cnt++; });
	FA x, y; x.LoadFromString(parser, A, tr); y.LoadFromString(parser, B, tr);
	for (auto& p : d) std::cout << p.first << " = " << p.second << "\n";
	size_t n = cnt;
	// relation given on the command line as pairs "q r" meaning q <= r, plus identity
	Util::BinaryRelation br(n, false); for (size_t i = 0; i < n; ++i) br.set(i, i, true);
	for (int i = 1; i + 1 < argc; i += 2) br.set(d.TranslateFwd(argv[i]), d.TranslateFwd(argv[i + 1]), true);
	Util::DiscontBinaryRelation::DictType dict; for (size_t i = 0; i < n; ++i) dict.insert(std::make_pair(i, i));
	AutBase::StateDiscontBinaryRelation sim(br, dict);
	for (int alg = 0; alg < 2; ++alg)
	{
		InclParam ip; ip.SetAlgorithm(alg ? InclParam::e_algorithm::congruences : InclParam::e_algorithm::antichains); ip.SetSearchOrder(InclParam::e_search_order::depth);
		ip.SetUseSimulation(true); ip.SetSimulation(&sim);
		bool r = alg ? FA::CheckInclusion(FA::UnionDisjointStates(x, y), y, ip) : FA::CheckInclusion(x, y, ip);
		std::cout << (alg ? "congr+sim: " : "antichains+sim: ") << r << "\n";
	}
	InclParam ip; ip.SetAlgorithm(InclParam::e_algorithm::congruences); std::cout << "congr nosim: " << FA::CheckInclusion(x, y, ip) << "\n";
}
