"""Per-property configuration of the checks: which monitor decides the property, how many
cases per build variant and tier, the non-triviality rule reported in the evidence, and the
"observed too little" minima (harness-side counts only, DESIGN.md §2.4)."""

COMMON_ASSUME = [
    "reference model (harness/refmodel.hh) is correct; it is cross-checked by mutation trials and by the redundancy between monitors",
    "library built with -DNDEBUG (the shipped configuration) and -DLIBVATA_VERIF (guarded hooks)",
    "reach = the generated cases only (exhaustive-small + random + structured + corpus); no claim beyond them",
]

PROPS = {
    "C02": {
        "monitor": "mon_ops",
        "rule": "pairs of explicit tree automata: seed-rotated slice of all pairs of automata with <=2 states/<=2 rules over {a/0,b/0,f/1,g/2}, then random/productive/related/structured/renamed pairs (<=5 states; 'small A, large B' up to 12); Union under 4 map-argument modes, UnionDisjointStates on shifted/sparse copies, Intersection, IntersectionBU with/without product map; oracle = joint subset construction + exact map/image checks + operand snapshots. non-trivial = both operand languages non-empty and the union has a rule; distinct = hash of (alphabet, A, B)",
        "quick": {"cases": {"plain": 40000, "asan": 6000}, "params": {"exhaustive": 8000}, "params_asan": {"exhaustive": 1000}, "min_nontrivial": 5000,
                  "min_counters": {"nonempty-intersection": 2000, "union-map-mode-3": 1000}},
        "thorough": {"cases": {"plain": 600000, "asan": 60000}, "params": {"exhaustive": 300000}, "params_asan": {"exhaustive": 20000}, "min_nontrivial": 60000},
        "assumptions": COMMON_ASSUME + ["pre-filled translation maps are injective with ranges disjoint from any fresh number the call can allocate (documented contract)",
                                        "UnionDisjointStates only on operands with disjoint state sets (precondition)"],
    },
    "C03": {
        "monitor": "mon_ops",
        "rule": "all 2788 automata with <=2 states/<=3 rules over {a/0,b/0,f/1,g/2} (thorough: all 99072 with <=3 states), then random/productive/duplicated automata (<=6 states, dense/gapped/sparse numbers); oracle = RM language equality + structural walker (reachability from final states; productive-and-reachable) + RM emptiness. non-trivial = automaton has a state that must be removed or one that must be kept; distinct = hash of (alphabet, A)",
        "quick": {"cases": {"plain": 40000, "asan": 6000}, "params_asan": {"exhaustive": 1000}, "min_nontrivial": 5000,
                  "min_counters": {"shape:reach-size-equals-owner-size-sets-differ": 200, "shape:final-without-rules": 500, "shape:no-final": 500, "has-reachable-useless-state": 1000}},
        "thorough": {"cases": {"plain": 700000, "asan": 60000}, "params": {"exhaustive": 99072}, "params_asan": {"exhaustive": 10000}, "min_nontrivial": 60000},
        "assumptions": COMMON_ASSUME,
    },
    "C05": {
        "monitor": "mon_ops",
        "rule": "same single-automaton generators as C03 (half of them renumbered to gapped/sparse numbers) plus duplicated sub-automata (simulation-equivalent final and non-final states); oracle = RM language equality, |states| and |rules| not larger, every result state is an input state or has the per-state language of one. non-trivial = reference downward-simulation equivalence has a class of size >= 2 (something to merge); distinct = hash of (alphabet, A)",
        "quick": {"cases": {"plain": 40000, "asan": 6000}, "params_asan": {"exhaustive": 1000}, "min_nontrivial": 2000, "min_counters": {"reduced-states": 5000}},
        "thorough": {"cases": {"plain": 600000, "asan": 60000}, "params": {"exhaustive": 99072}, "params_asan": {"exhaustive": 10000}, "min_nontrivial": 30000},
        "assumptions": COMMON_ASSUME,
    },
    "C06": {
        "monitor": "mon_ops",
        "rule": "automata (<=4 states, rank <=2) each with its own on-the-fly alphabet S registered by the harness (unused symbols, only-nullary alphabets, universal and empty languages, slice of the exhaustive family); oracle = joint subset construction of (A, Complement(A), dirty-symbol tracker) over S ∪ symbols(C): every tree over S accepted by exactly one, no tree with an outside symbol accepted. non-trivial = L(A) neither empty nor universal over S; distinct = hash of (S, A)",
        "quick": {"cases": {"plain": 30000, "asan": 5000}, "params": {"exhaustive": 2788}, "params_asan": {"exhaustive": 300}, "min_nontrivial": 3000,
                  "min_counters": {"lang:universal": 500, "lang:empty": 500}},
        "thorough": {"cases": {"plain": 400000, "asan": 40000}, "params": {"exhaustive": 2788, "S": 5}, "params_asan": {"exhaustive": 2788}, "min_nontrivial": 30000},
        "timeout": 30,
        "assumptions": COMMON_ASSUME + ["the alphabet of the automaton is the on-the-fly alphabet object set with SetAlphabet; S = exactly the symbols registered in it"],
    },
    "C14": {
        "monitor": "mon_ops",
        "rule": "same single-automaton generators as C03 x state maps {identity, merging, sparse injective, permutation, merge-into-existing} through ReindexStates(functor, with/without finals), CollapseStates, ReindexStates(weak translator), ReindexStates into a non-empty destination, and TranslateSymbols (injective / rank-preserving merging); oracle = exact image of rules and final states computed by the harness, translator contents, counts. non-trivial = automaton has >=1 rule and >=2 states; distinct = hash of (alphabet, A, map)",
        "quick": {"cases": {"plain": 40000, "asan": 6000}, "params_asan": {"exhaustive": 1000}, "min_nontrivial": 5000, "min_counters": {"non-injective": 3000, "injective": 3000}},
        "thorough": {"cases": {"plain": 600000, "asan": 60000}, "params": {"exhaustive": 99072}, "params_asan": {"exhaustive": 10000}, "min_nontrivial": 60000},
        "assumptions": COMMON_ASSUME + ["state maps are total on the states of the automaton (CollapseStates throws out_of_range otherwise, by contract)"],
    },
    "C15": {
        "monitor": "mon_ops",
        "rule": "same single-automaton generators as C03 plus a 'deep' family (only accepted trees have depth 6-12, unproductive final states); oracle = RM: L(witness) subset of L(A), and non-empty whenever L(A) is. non-trivial = L(A) non-empty; distinct = hash of (alphabet, A)",
        "quick": {"cases": {"plain": 40000, "asan": 6000}, "params_asan": {"exhaustive": 1000}, "min_nontrivial": 5000, "min_counters": {"gen:G3-deep": 3000, "empty-language": 1000}},
        "thorough": {"cases": {"plain": 700000, "asan": 60000}, "params": {"exhaustive": 99072}, "params_asan": {"exhaustive": 10000}, "min_nontrivial": 60000},
        "assumptions": COMMON_ASSUME,
    },
}

MEMCHECK_FAMILIES = []
