"""Per-property configuration of the checks: which monitor decides the property, how many
cases per build variant and tier, the non-triviality rule reported in the evidence, and the
"observed too little" minima (harness-side counts only, DESIGN.md §2.4)."""

COMMON_ASSUME = [
    "reference model (harness/refmodel.hh) is correct; it is cross-checked by mutation trials and by the redundancy between monitors",
    "library built with -DNDEBUG (the shipped configuration) and -DLIBVATA_VERIF (guarded hooks)",
    "reach = the generated cases only (exhaustive-small + random + structured + corpus); no claim beyond them",
]

PROPS = {
    "C02": {
        "monitor": "mon_ops",
        "rule": "pairs of explicit tree automata: seed-rotated slice of all pairs of automata with <=2 states/<=2 rules over {a/0,b/0,f/1,g/2}, then random/productive/related/structured/renamed pairs (<=5 states; 'small A, large B' up to 12); Union under 4 map-argument modes, UnionDisjointStates on shifted/sparse copies, Intersection, IntersectionBU with/without product map; oracle = joint subset construction + exact map/image checks + operand snapshots. non-trivial = both operand languages non-empty and the union has a rule; distinct = hash of (alphabet, A, B)",
        "quick": {"cases": {"plain": 40000, "asan": 6000}, "params": {"exhaustive": 8000}, "params_asan": {"exhaustive": 1000}, "min_nontrivial": 5000,
                  "min_counters": {"nonempty-intersection": 2000, "union-map-mode-3": 1000}},
        "thorough": {"cases": {"plain": 600000, "asan": 60000}, "params": {"exhaustive": 300000}, "params_asan": {"exhaustive": 20000}, "min_nontrivial": 60000},
        "assumptions": COMMON_ASSUME + ["pre-filled translation maps are injective with ranges disjoint from any fresh number the call can allocate (documented contract)",
                                        "UnionDisjointStates only on operands with disjoint state sets (precondition)"],
    },
    "C03": {
        "monitor": "mon_ops",
        "rule": "all 2788 automata with <=2 states/<=3 rules over {a/0,b/0,f/1,g/2} (thorough: all 99072 with <=3 states), then random/productive/duplicated automata (<=6 states, dense/gapped/sparse numbers); oracle = RM language equality + structural walker (reachability from final states; productive-and-reachable) + RM emptiness. non-trivial = automaton has a state that must be removed or one that must be kept; distinct = hash of (alphabet, A)",
        "quick": {"cases": {"plain": 40000, "asan": 6000}, "params_asan": {"exhaustive": 1000}, "min_nontrivial": 5000,
                  "min_counters": {"shape:reach-size-equals-owner-size-sets-differ": 200, "shape:final-without-rules": 500, "shape:no-final": 500, "has-reachable-useless-state": 1000}},
        "thorough": {"cases": {"plain": 700000, "asan": 60000}, "params": {"exhaustive": 99072}, "params_asan": {"exhaustive": 10000}, "min_nontrivial": 60000},
        "assumptions": COMMON_ASSUME,
    },
    "C05": {
        "monitor": "mon_ops",
        "rule": "same single-automaton generators as C03 (half of them renumbered to gapped/sparse numbers) plus duplicated sub-automata (simulation-equivalent final and non-final states); oracle = RM language equality, |states| and |rules| not larger, every result state is an input state or has the per-state language of one. non-trivial = reference downward-simulation equivalence has a class of size >= 2 (something to merge); distinct = hash of (alphabet, A)",
        "quick": {"cases": {"plain": 40000, "asan": 6000}, "params_asan": {"exhaustive": 1000}, "min_nontrivial": 2000, "min_counters": {"reduced-states": 5000}},
        "thorough": {"cases": {"plain": 600000, "asan": 60000}, "params": {"exhaustive": 99072}, "params_asan": {"exhaustive": 10000}, "min_nontrivial": 30000},
        "assumptions": COMMON_ASSUME,
    },
    "C06": {
        "monitor": "mon_ops",
        "rule": "automata (<=4 states, rank <=2) each with its own on-the-fly alphabet S registered by the harness (unused symbols, only-nullary alphabets, universal and empty languages, slice of the exhaustive family); oracle = joint subset construction of (A, Complement(A), dirty-symbol tracker) over S ∪ symbols(C): every tree over S accepted by exactly one, no tree with an outside symbol accepted. non-trivial = L(A) neither empty nor universal over S; distinct = hash of (S, A)",
        "quick": {"cases": {"plain": 30000, "asan": 5000}, "params": {"exhaustive": 2788}, "params_asan": {"exhaustive": 300}, "min_nontrivial": 3000,
                  "min_counters": {"lang:universal": 500, "lang:empty": 500}},
        "thorough": {"cases": {"plain": 400000, "asan": 40000}, "params": {"exhaustive": 2788, "S": 5}, "params_asan": {"exhaustive": 2788}, "min_nontrivial": 30000},
        "timeout": 30,
        "assumptions": COMMON_ASSUME + ["the alphabet of the automaton is the on-the-fly alphabet object set with SetAlphabet; S = exactly the symbols registered in it"],
    },
    "C14": {
        "monitor": "mon_ops",
        "rule": "same single-automaton generators as C03 x state maps {identity, merging, sparse injective, permutation, merge-into-existing} through ReindexStates(functor, with/without finals), CollapseStates, ReindexStates(weak translator), ReindexStates into a non-empty destination, and TranslateSymbols (injective / rank-preserving merging); oracle = exact image of rules and final states computed by the harness, translator contents, counts. non-trivial = automaton has >=1 rule and >=2 states; distinct = hash of (alphabet, A, map)",
        "quick": {"cases": {"plain": 40000, "asan": 6000}, "params_asan": {"exhaustive": 1000}, "min_nontrivial": 5000, "min_counters": {"non-injective": 3000, "injective": 3000}},
        "thorough": {"cases": {"plain": 600000, "asan": 60000}, "params": {"exhaustive": 99072}, "params_asan": {"exhaustive": 10000}, "min_nontrivial": 60000},
        "assumptions": COMMON_ASSUME + ["state maps are total on the states of the automaton (CollapseStates throws out_of_range otherwise, by contract)"],
    },
    "C15": {
        "monitor": "mon_ops",
        "rule": "same single-automaton generators as C03 plus a 'deep' family (only accepted trees have depth 6-12, unproductive final states); oracle = RM: L(witness) subset of L(A), and non-empty whenever L(A) is. non-trivial = L(A) non-empty; distinct = hash of (alphabet, A)",
        "quick": {"cases": {"plain": 40000, "asan": 6000}, "params_asan": {"exhaustive": 1000}, "min_nontrivial": 5000, "min_counters": {"gen:G3-deep": 3000, "empty-language": 1000}},
        "thorough": {"cases": {"plain": 700000, "asan": 60000}, "params": {"exhaustive": 99072}, "params_asan": {"exhaustive": 10000}, "min_nontrivial": 60000},
        "assumptions": COMMON_ASSUME,
    },
    "C01": {
        "monitor": "mon_incl",
        "rule": "pairs of explicit tree automata: seed-rotated slice of all 548^2 pairs with <=2 states/<=2 rules over {a/0,b/0,f/1,g/2}; random, productive, related-by-construction (A vs A∪X), near-boundary mutants, renamed twins, structured families (children reached by different trees, deep unary chains, many tuples per (state,symbol), small A / large B up to 12 states). Each pair x 8 selections (no-simulation ones with raw and pre-sanitised operands; simulation ones through Sanitize→UnionDisjointStates→ComputeSimulation→CheckInclusion) + default parameters + unimplemented selections must throw; a quarter of the cases are built through the Timbuk loader. Oracle: joint subset construction; online memo audit hook. non-trivial = both languages non-empty in the reference model; distinct = hash of (alphabet, A, B)",
        "quick": {"cases": {"plain": 24000, "asan": 3000}, "params": {"exhaustive": 6000}, "params_asan": {"exhaustive": 600}, "min_nontrivial": 5000,
                  "min_counters": {"nontrivial:included": 2000, "nontrivial:not-included": 2000, "runs:expl/down-rec-opt+sim": 10000}},
        "thorough": {"cases": {"plain": 700000, "asan": 40000}, "params": {"exhaustive": 300304}, "params_asan": {"exhaustive": 10000}, "min_nontrivial": 100000},
        "timeout": 20,
        "assumptions": COMMON_ASSUME + ["downward selections without simulation are only run when both operands have <= 6 states (heavy-tailed running time); a per-case CPU-time watchdog makes a case inconclusive, never violated"],
    },
    "C07": {
        "monitor": "mon_incl",
        "rule": "same pair generators as C01 (<=5 states, small A / large B up to 12), loaded from Timbuk text with one weak translator and a shared counter per pair; BDD top-down: down-rec and down-rec-opt x {raw, pre-sanitised, simulation supplied as the library's own bottom-up path does, identity}; BDD bottom-up: up x {raw, pre-sanitised, identity 'simulation'}, down-rec+sim; unimplemented selections must throw NotImplementedException. Oracle: joint subset construction + explicit-encoding verdict; online memo audit hook. non-trivial = both languages non-empty; distinct = hash of (alphabet, A, B)",
        "quick": {"cases": {"plain": 16000, "asan": 1600}, "params": {"exhaustive": 4000}, "params_asan": {"exhaustive": 300}, "min_nontrivial": 3000,
                  "min_counters": {"nontrivial:included": 1500, "nontrivial:not-included": 1500, "runs:bdd-bu/up": 10000}},
        "thorough": {"cases": {"plain": 400000, "asan": 20000}, "params": {"exhaustive": 150000}, "params_asan": {"exhaustive": 5000}, "min_nontrivial": 50000},
        "timeout": 20,
        "assumptions": COMMON_ASSUME + ["at most 5 distinct symbol names per process (16-bit symbol codes, process-wide alphabet only grows)"],
    },
    "C04": {
        "monitor": "mon_sim",
        "rule": "all 2788 automata with <=2 states/<=3 rules (thorough: all 99072 with <=3 states), random/productive/duplicated automata (<=7 states, rank <=3); downward simulation on the densely numbered automaton, upward simulation on the automaton trimmed by the reference model; each again under 3 (thorough 6) random permutations of the state numbers with shuffled rule insertion order and shuffled symbol registration. Oracle: naive greatest fixpoints of the two definitions in the property; reflexive, transitive; permuted relation = image. non-trivial = n >= 2 and the reference relation is neither identity nor full; distinct = hash of (direction, alphabet, automaton)",
        "quick": {"cases": {"plain": 20000, "asan": 3000}, "params_asan": {"exhaustive": 500}, "min_nontrivial": 3000, "min_counters": {"numberings-tried": 20000, "up-runs": 8000}},
        "thorough": {"cases": {"plain": 400000, "asan": 30000}, "params": {"exhaustive": 99072, "numberings": 6}, "params_asan": {"exhaustive": 5000}, "min_nontrivial": 40000},
        "timeout": 5, "hang_is_violation": True,
        "assumptions": COMMON_ASSUME + ["states numbered densely 0..n-1 and n passed as SimParam::NumStates (precondition in the property)", "upward simulation only on automata without useless states (trimmed by the reference model, not by the library)"],
    },
    "C16": {
        "monitor": "mon_sim",
        "rule": "random LTSs (1-9 states, 1-4 labels incl. unused label numbers, parallel edges, isolated/sink states, rings) through computeSimulation(), computeSimulation(outputSize) and computeSimulation(partition, block preorder, outputSize) with random non-empty blocks and random reflexive-transitive block relations, random outputSize <= states. Oracle: naive greatest fixpoint started from 'blocks related'; size of the result = outputSize. non-trivial = >=2 states and the result differs from the initial relation; distinct = hash of the LTS (+ partition, preorder)",
        "quick": {"cases": {"plain": 60000, "asan": 8000}, "min_nontrivial": 20000, "min_counters": {"partition-runs": 30000}},
        "thorough": {"cases": {"plain": 1500000, "asan": 100000}, "params": {"N": 12}, "min_nontrivial": 400000},
        "timeout": 5, "hang_is_violation": True,
        "assumptions": COMMON_ASSUME + ["every block of the partition is non-empty and the block relation is reflexive and transitive (precondition in the property)"],
    },
    "C09": {
        "monitor": "mon_fa",
        "rule": "pairs of NFAs: seed-rotated slice of all 1488^2 pairs with <=2 states/<=3 edges over 2 symbols and any start/final sets; random, live (non-empty language), related-by-construction and near-boundary pairs, larger searches (up to 10 states / 30 edges, 1-3 symbols); several start states, start states that are final, dead/unreachable states. Each pair x {antichains, congruence depth-first, congruence breadth-first} x {raw operands numbered from 0 as loaded, operands pre-sanitised by the caller} + default parameters. Oracle: joint subset construction on words; online memo audit hook. non-trivial = both languages non-empty; distinct = hash of (symbols, A, B)",
        "quick": {"cases": {"plain": 40000, "asan": 5000}, "params": {"exhaustive": 10000}, "params_asan": {"exhaustive": 1000}, "min_nontrivial": 8000,
                  "min_counters": {"nontrivial:included": 3000, "nontrivial:not-included": 3000}},
        "thorough": {"cases": {"plain": 1200000, "asan": 80000}, "params": {"exhaustive": 400000, "S": 9, "T": 26}, "params_asan": {"exhaustive": 20000}, "min_nontrivial": 200000},
        "timeout": 5, "hang_is_violation": True,
        "assumptions": COMMON_ASSUME + ["operands have <= 10 states, so a 20 s CPU-time budget per case that is exceeded twice (second time doubled) is non-termination, not slowness"],
    },
    "C10": {
        "monitor": "mon_fa",
        "rule": "same NFA pair generators as C09; Union, UnionDisjointStates (operands loaded through one weak translator with a shared counter), Intersection (with/without product map), RemoveUnreachableStates, RemoveUselessStates, GetCandidateTree, Reverse; results observed through DumpToString. Oracle: joint subset construction on words (mirror language for Reverse); operands' dumps unchanged. non-trivial = first operand accepts the empty word, or has >=2 start states, or a non-empty language; distinct = hash of (symbols, A, B)",
        "quick": {"cases": {"plain": 40000, "asan": 5000}, "params": {"exhaustive": 10000}, "params_asan": {"exhaustive": 1000}, "min_nontrivial": 8000,
                  "min_counters": {"shape:accepts-empty-word": 3000, "shape:several-start-states": 3000, "nonempty-intersection": 3000}},
        "thorough": {"cases": {"plain": 1200000, "asan": 80000}, "params": {"exhaustive": 400000}, "params_asan": {"exhaustive": 20000}, "min_nontrivial": 200000},
        "timeout": 5, "hang_is_violation": True,
        "assumptions": COMMON_ASSUME,
    },
}

MEMCHECK_FAMILIES = []
