#!/usr/bin/env python3
"""Writes MANIFEST.json from checks_config.py (one entry per claimed property)."""
import json, os, sys
sys.path.insert(0, os.path.dirname(os.path.abspath(__file__)))
from checks_config import PROPS

TECH = {
 "C01": "differential runtime monitor vs reference subset construction over generated pairs x 8 selections; online memo-audit hook; ASan+UBSan replay",
 "C02": "differential runtime monitor (reference model + exact map/image checker + operand snapshots); ASan+UBSan replay",
 "C03": "differential runtime monitor (reference model + structural post-condition walker); ASan+UBSan replay",
 "C04": "relation monitor vs naive greatest fixpoints under permuted numberings; ASan+UBSan replay",
 "C05": "differential runtime monitor (reference language + size + per-state-language image check); ASan+UBSan replay",
 "C06": "differential runtime monitor with per-automaton alphabets and a dirty-symbol tracker automaton; ASan+UBSan replay",
 "C07": "differential runtime monitor on both BDD encodings x implemented selections vs reference model and explicit encoding; memo-audit hook; ASan+UBSan replay",
 "C08": "history monitor over pools of table-sharing BDD automata, dump->reference-model observation before/after every call; ASan+UBSan replay",
 "C09": "differential runtime monitor vs reference subset construction on words x 3 algorithms x {raw, pre-sanitised}; online memo-audit hook; hang watchdog; ASan+UBSan replay",
 "C10": "differential runtime monitor on NFA operations vs reference word model (dump observation); ASan+UBSan replay",
 "C11": "history monitor with shadow copies of every live handle re-read after every step + repeat-after-noise determinism monitor; ASan+UBSan replay",
 "C12": "container-model monitor: all read views vs shadow std::set after every mutating call; ASan+UBSan replay",
 "C13": "round-trip monitor + mutational fuzzing with crash/hang watchdog (returns-or-throws-std::exception oracle) on plain and ASan+UBSan builds",
 "C14": "image monitor: exact image of rules/finals/translator contents computed by the harness; ASan+UBSan replay",
 "C15": "differential runtime monitor vs reference model (sub-language, non-emptiness); ASan+UBSan replay",
 "C16": "relation monitor on the LTS engine vs naive greatest fixpoint inside the initial block preorder; ASan+UBSan replay",
 "C17": "shadow-function monitor (total truth tables) + pairwise canonicity check over all live handles; ASan+UBSan replay",
 "C18": "history monitor + guarded node-store hooks (exact reference-count audit, conservation of table sizes) + ASan+UBSan (+ memcheck in thorough)",
 "C19": "metamorphic runtime monitor on corpus automata (renamed/reordered twins, language laws, all-selections-agree), each library call in a watchdogged child process",
 "C20": "compiler sanitizers (gcc ASan+UBSan, fatal reports) and valgrind memcheck on the workloads of C01-C19",
}
REF = {"C%02d" % i: "§5 C%02d" % i for i in range(1, 21)}

checks = []
for pid in sorted(PROPS):
    c = PROPS[pid]
    checks.append({
        "property_id": pid,
        "quick_cmd": "./check %s --tier quick" % pid,
        "thorough_cmd": "./check %s --tier thorough" % pid,
        "evidence_file": "/verif/evidence/%s.json" % pid,
        "replay_cmd_template": "./check %s --replay {path}" % pid,
        "engine": "compose(all monitors)" if c.get("compose") else c["monitor"],
        "level_claimed": {
            "category": "exploration",
            "text": "Held on the executions observed: the real library code, built from /repo's working tree, is driven by generated workloads while an oracle independent of the library judges every execution; evidence reports cases executed, distinct non-trivial cases, both verdict classes, inconclusive cases and reach counters. No claim beyond the generated cases. Exploration is the level this family (runtime monitoring) can give for a property quantified over all inputs/histories.",
            "design_ref": "DESIGN.md " + REF[pid] + ", §2.4",
        },
        "level_note": "; ".join(c.get("assumptions", [])),
        "technique": TECH[pid],
    })

m = {
    "version": 1,
    "setup_cmd": "./check --setup",
    "hooks": {
        "guard": "LIBVATA_VERIF",
        "enable": "-DLIBVATA_VERIF in CMAKE_CXX_FLAGS of /verif/harness/CMakeLists.txt (both build variants, which compile /repo/src through add_subdirectory); the repository's own build never defines it",
        "baseline_off_cmd": "./check --baseline-off",
        "source_commits": ["f8c21011", "7439a6f9", "a596ef32"],
        "add_only": True,
    },
    "engines": [
        {"name": "mon_ops", "path": "harness/mon_ops.cc", "serves_properties": ["C02", "C03", "C05", "C06", "C14", "C15"], "kind_free_text": "differential monitors vs reference model"},
        {"name": "mon_incl", "path": "harness/mon_incl.cc", "serves_properties": ["C01", "C07"], "kind_free_text": "inclusion differential monitor + memo audit"},
        {"name": "mon_sim", "path": "harness/mon_sim.cc", "serves_properties": ["C04", "C16"], "kind_free_text": "relation monitors vs naive fixpoints"},
        {"name": "mon_fa", "path": "harness/mon_fa.cc", "serves_properties": ["C09", "C10"], "kind_free_text": "NFA differential monitors"},
        {"name": "mon_hist", "path": "harness/mon_hist.cc", "serves_properties": ["C11", "C12"], "kind_free_text": "history / container-model monitors"},
        {"name": "mon_bddhist", "path": "harness/mon_bddhist.cc", "serves_properties": ["C08"], "kind_free_text": "BDD history monitor"},
        {"name": "mon_parse", "path": "harness/mon_parse.cc", "serves_properties": ["C13"], "kind_free_text": "round trip + mutational fuzzing"},
        {"name": "mon_mtbdd", "path": "harness/mon_mtbdd.cc", "serves_properties": ["C17", "C18"], "kind_free_text": "shadow-function + node-store audit"},
        {"name": "mon_meta", "path": "harness/mon_meta.cc", "serves_properties": ["C19"], "kind_free_text": "metamorphic monitor on corpus"},
        {"name": "check", "path": "check", "serves_properties": sorted(PROPS), "kind_free_text": "driver: build from /repo working tree, sharding, restart-after-crash, known-findings matching, evidence"},
    ],
    "checks": checks,
    "notes": "Every check rebuilds (ninja, incremental) the library from /repo's current working tree together with the monitors in two variants (plain: -O2 -DNDEBUG; asan: -O1 -fsanitize=address,undefined, fatal). VERIF_SEED selects the PRNG seed (default 1). Exit 2 = harness failure or too little observed (never reported as held). known_findings.json lists eleven repaired defects (status fixed: they suppress nothing).",
    "not_applicable": [],
}
json.dump(m, open(os.path.join(os.path.dirname(os.path.abspath(__file__)), "MANIFEST.json"), "w"), indent=1, ensure_ascii=False)
print("MANIFEST.json written with", len(checks), "checks")
